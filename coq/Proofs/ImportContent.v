(* C14: what _parse_voice writes for a bar, note by note, and what it sounds like.
   For a monophonic voice the melody of a bar is: the incoming tie as a continuation (or a rest up to the first note), then for
   each input note a rest for the gap before it and the note itself - the pitch notated by Chord.parse, the note's own
   length cut at the bar line, its velocity - then a rest to the bar line; the part of the last note beyond the bar line is
   returned as the outgoing tie.  Rendered by the Spec of C03, the bar sounds exactly the input notes: pitch, onset,
   duration (cut at the bar line), velocity. *)
From ML Require Import Model.Types gen.Tables Model.Pitch Model.Rel Model.Render Model.Slice Model.Import Spec.PitchSpec Spec.RenderSpec.
From ML Require Import Proofs.PitchProofs Proofs.RenderProofs Proofs.SliceProofs Proofs.ImportProofs.
From Coq Require Import Lia ZifyBool.
Open Scope Z_scope.
Open Scope list_scope.

(* the notes written for the voice from the cursor le on, the last one cut at the bar line be *)
Fixpoint written (c : chord) (notes : list inote) (le be : Z) : option (list tnote) :=
  match notes with
  | [] => Some []
  | n :: r =>
      do pn <- parse c (i_pitch n) ;;
      do rest <- written c r (i_end n) be ;;
      Some ((if le <? i_start n then [silence (i_start n - le)] else []) ++
            mkTN pn (Z.min (i_end n) be - i_start n) (i_vel n) :: rest)
  end.

Fixpoint last_end (le : Z) (notes : list inote) : Z :=
  match notes with [] => le | n :: r => last_end (i_end n) r end.

(* the loop, uncut: racc grows by the written notes, most recent first *)
Fixpoint written_raw (c : chord) (notes : list inote) (le : Z) : option (list tnote) :=
  match notes with
  | [] => Some []
  | n :: r =>
      do pn <- parse c (i_pitch n) ;;
      do rest <- written_raw c r (i_end n) ;;
      Some ((if le <? i_start n then [silence (i_start n - le)] else []) ++ mkTN pn (i_end n - i_start n) (i_vel n) :: rest)
  end.

Lemma voice_loop_written c : forall notes le racc res le', monophonic le notes ->
  voice_loop c notes le racc = Some (res, le') ->
  exists w, written_raw c notes le = Some w /\ res = rev w ++ racc /\ le' = last_end le notes.
Proof.
  induction notes as [|n notes IH]; intros le racc res le' Hm H.
  - cbn in H. injection H as <- <-. exists []. repeat split.
  - cbn [monophonic] in Hm. destruct Hm as (H1 & H2 & H3). cbn [voice_loop] in H.
    assert (E1 : (0 <? le - i_start n) = false) by lia. rewrite E1 in H.
    unfold push_note in H. assert (E2 : (0 <? i_end n - i_start n) = true) by lia. rewrite E2 in H.
    unfold parse_note in H. cbn [written_raw last_end].
    destruct (parse c (i_pitch n)) as [pn|]; [|destruct (le - i_start n <? 0); discriminate]. cbn [obind] in H |- *.
    destruct (le - i_start n <? 0) eqn:E3; cbn [obind] in H.
    + destruct (IH _ _ _ _ H3 H) as (w & Hw & -> & ->). rewrite Hw. cbn [obind].
      assert ((le <? i_start n) = true) as -> by lia. eexists. split; [reflexivity|]. split; [|reflexivity].
      cbn [app rev]. rewrite <- !app_assoc. cbn [app].
      assert (E : - (le - i_start n) = i_start n - le) by lia. rewrite E. reflexivity.
    + destruct (IH _ _ _ _ H3 H) as (w & Hw & -> & ->). rewrite Hw. cbn [obind].
      assert ((le <? i_start n) = false) as -> by lia. eexists. split; [reflexivity|]. split; [|reflexivity].
      cbn [app rev]. rewrite <- !app_assoc. reflexivity.
Qed.

(* only the last note of a monophonic voice whose notes all start inside the bar can cross the bar line *)
Lemma written_raw_clip c be : forall notes le w, monophonic le notes -> Forall (fun n => i_start n < be) notes ->
  written_raw c notes le = Some w -> last_end le notes <= be -> written c notes le be = Some w.
Proof.
  induction notes as [|n notes IH]; intros le w Hm Hst H Hle; [exact H|].
  cbn [monophonic] in Hm. destruct Hm as (H1 & H2 & H3). cbn [written_raw written last_end] in *.
  destruct (parse c (i_pitch n)) as [pn|]; [|discriminate]. cbn [obind] in *.
  destruct (written_raw c notes (i_end n)) as [rest|] eqn:R; [|discriminate]. cbn [obind] in *.
  assert (Hmono : forall l le0, monophonic le0 l -> le0 <= last_end le0 l).
  { induction l as [|x l IHl]; intros le0 Hx; cbn [last_end]; [lia|]. cbn [monophonic] in Hx. destruct Hx as (A & B & C).
    specialize (IHl _ C). lia. }
  specialize (Hmono _ _ H3).
  rewrite (IH _ _ H3 (Forall_inv_tail Hst) R Hle). cbn [obind]. rewrite Z.min_l by lia. exact H.
Qed.

Lemma written_split c be : forall notes le w, notes <> [] -> monophonic le notes -> Forall (fun n => i_start n < be) notes ->
  written_raw c notes le = Some w -> be < last_end le notes ->
  exists w0 x, w = w0 ++ [x] /\ tdur x - (last_end le notes - be) > 0 /\
    written c notes le be = Some (w0 ++ [with_dur x (tdur x - (last_end le notes - be))]).
Proof.
  induction notes as [|n notes IH]; intros le w Hne Hm Hst H Hlt; [congruence|].
  cbn [monophonic] in Hm. destruct Hm as (H1 & H2 & H3). cbn [written_raw written last_end] in *.
  destruct (parse c (i_pitch n)) as [pn|]; [|discriminate]. cbn [obind] in *.
  destruct (written_raw c notes (i_end n)) as [rest|] eqn:R; [|discriminate]. cbn [obind] in *. injection H as <-.
  pose proof (Forall_inv Hst) as Hs0. cbn beta in Hs0.
  destruct notes as [|n2 notes2].
  - cbn in R. injection R as <-. cbn [last_end written obind] in *.
    exists (if le <? i_start n then [silence (i_start n - le)] else []), (mkTN pn (i_end n - i_start n) (i_vel n)).
    split; [reflexivity|]. cbn [tdur]. split; [lia|]. unfold with_dur. cbn [tn tdur tamp].
    assert (E : Z.min (i_end n) be - i_start n = i_end n - i_start n - (i_end n - be)) by lia. rewrite E. reflexivity.
  - destruct (IH (i_end n) rest ltac:(discriminate) H3 (Forall_inv_tail Hst) R Hlt) as (w0 & x & -> & Hx & Hw).
    rewrite Hw. cbn [obind].
    exists ((if le <? i_start n then [silence (i_start n - le)] else []) ++ mkTN pn (i_end n - i_start n) (i_vel n) :: w0), x.
    split; [rewrite <- app_assoc; reflexivity|]. split; [exact Hx|].
    cbn [monophonic] in H3. pose proof (Forall_inv (Forall_inv_tail Hst)) as Hs2. cbn beta in Hs2.
    rewrite Z.min_l by lia. rewrite <- app_assoc. reflexivity.
Qed.

Lemma filter_pos_id l : Forall (fun n => 0 < tdur n) l -> filter (fun m => 0 <? tdur m) l = l.
Proof. induction 1 as [|n l Hn _ IH]; [reflexivity|]. cbn [filter]. assert ((0 <? tdur n) = true) as -> by lia. rewrite IH. reflexivity. Qed.

Lemma written_pos c be : forall notes le w, monophonic le notes -> Forall (fun n => i_start n < be) notes ->
  written c notes le be = Some w -> Forall (fun n => 0 < tdur n) w.
Proof.
  induction notes as [|n notes IH]; intros le w Hm Hst H; [injection H as <-; constructor|].
  cbn [monophonic] in Hm. destruct Hm as (H1 & H2 & H3). cbn [written] in H.
  destruct (parse c (i_pitch n)) as [pn|]; [|discriminate]. cbn [obind] in H.
  destruct (written c notes (i_end n) be) as [rest|] eqn:R; [|discriminate]. cbn [obind] in H. injection H as <-.
  pose proof (Forall_inv Hst) as Hs0. cbn beta in Hs0.
  apply Forall_app. split.
  - destruct (le <? i_start n) eqn:E; repeat constructor. cbn [tdur silence]. lia.
  - constructor; [cbn [tdur]; lia|exact (IH _ _ H3 (Forall_inv_tail Hst) R)].
Qed.

(* ---------- the melody of the bar ---------- *)
Definition bar_prefix (cont : option Z) (bs first : Z) : list tnote :=
  match cont with
  | Some d => if 0 <? d then [continuation d] else []
  | None => if bs <? first then [silence (first - bs)] else []
  end.

Theorem parse_voice_content c n0 notes bs be cont mel ret :
  bs < be ->
  monophonic (match cont with Some d => bs + d | None => bs end) (n0 :: notes) ->
  (forall d, cont = Some d -> 0 <= d) ->
  Forall (fun n => i_start n < be) (n0 :: notes) ->
  parse_voice c (n0 :: notes) bs be cont = Some (mel, ret) ->
  let le0 := match cont with Some d => bs + d | None => i_start n0 end in
  let fin := last_end le0 (n0 :: notes) in
  exists w, written c (n0 :: notes) le0 be = Some w /\
    mel = bar_prefix cont bs (i_start n0) ++ w ++ (if fin <? be then [silence (be - fin)] else []) /\
    ret = (if be <? fin then Some (fin - be) else None).
Proof.
  intros Hb Hm Hc Hst H le0 fin. unfold parse_voice in H.
  set (init := match cont with
               | Some d => ((if 0 <? d then [continuation d] else []), bs + d)
               | None => ((if bs <? i_start n0 then [silence (i_start n0 - bs)] else []), i_start n0)
               end) in *.
  assert (Ei : init = (rev (bar_prefix cont bs (i_start n0)), le0)).
  { unfold init, bar_prefix, le0. destruct cont as [d|]; [destruct (0 <? d)|destruct (bs <? i_start n0)]; reflexivity. }
  rewrite Ei in H. clear Ei init.
  assert (M0 : monophonic le0 (n0 :: notes)).
  { unfold le0. destruct cont as [d|]; [exact Hm|]. cbn [monophonic] in Hm |- *. destruct Hm as (A & B & C). repeat split; try lia. exact C. }
  assert (P0 : Forall (fun n => 0 < tdur n) (bar_prefix cont bs (i_start n0))).
  { unfold bar_prefix. destruct cont as [d|]; [destruct (0 <? d) eqn:E|destruct (bs <? i_start n0) eqn:E]; repeat constructor; cbn; lia. }
  destruct (voice_loop c (n0 :: notes) le0 (rev (bar_prefix cont bs (i_start n0)))) as [[racc le]|] eqn:El; [|discriminate].
  cbn [obind] in H. destruct (voice_loop_written c _ _ _ _ _ M0 El) as (w & Hw & -> & ->). fold fin in H |- *.
  destruct (fin <? be) eqn:E1.
  - cbn [obind fst snd] in H. assert (Hfin : fin <= be) by lia.
    pose proof (written_raw_clip c be _ _ _ M0 Hst Hw Hfin) as Wc. exists w. split; [exact Wc|].
    assert ((be <? fin) = false) as -> by lia.
    cbn [rev] in H. rewrite rev_app_distr, !rev_involutive in H.
    rewrite filter_pos_id in H.
    + destruct ((bar_prefix cont bs (i_start n0) ++ w) ++ [silence (be - fin)]) eqn:Em; [destruct (bar_prefix cont bs (i_start n0) ++ w); discriminate|].
      injection H as <- <-. rewrite <- Em, <- app_assoc. split; reflexivity.
    + apply Forall_app. split; [apply Forall_app; split; [exact P0|exact (written_pos c be _ _ _ M0 Hst Wc)]|].
      repeat constructor. cbn [tdur silence]. lia.
  - destruct (be <? fin) eqn:E2.
    + assert (Hne : n0 :: notes <> []) by discriminate. assert (Hlt : be < last_end le0 (n0 :: notes)) by (fold fin; lia).
      destruct (written_split c be (n0 :: notes) le0 w Hne M0 Hst Hw Hlt) as (w0 & x & -> & Hx & Wc). fold fin in Hx, Wc.
      rewrite rev_app_distr in H. cbn [rev app trim_last] in H.
      assert ((tdur x - (fin - be) =? 0) = false) as E3 by lia. rewrite E3 in H. cbn [obind fst snd] in H.
      eexists. split; [exact Wc|]. cbn [rev] in H. rewrite rev_app_distr, !rev_involutive in H.
      rewrite filter_pos_id in H.
      * destruct ((bar_prefix cont bs (i_start n0) ++ w0) ++ [with_dur x (tdur x - (fin - be))]) eqn:Em;
          [destruct (bar_prefix cont bs (i_start n0) ++ w0); discriminate|].
        injection H as <- <-. rewrite <- Em, app_nil_r, <- app_assoc. split; reflexivity.
      * apply Forall_app. split; [apply Forall_app; split; [exact P0|]|].
        -- pose proof (written_pos c be _ _ _ M0 Hst Wc) as Pw. apply Forall_app in Pw. exact (proj1 Pw).
        -- repeat constructor. cbn [tdur with_dur]. lia.
    + cbn [obind fst snd] in H. assert (Hfin : fin <= be) by lia.
      pose proof (written_raw_clip c be _ _ _ M0 Hst Hw Hfin) as Wc. exists w. split; [exact Wc|].
      rewrite rev_app_distr, !rev_involutive in H.
      rewrite filter_pos_id in H.
      * destruct (bar_prefix cont bs (i_start n0) ++ w) eqn:Em; [discriminate|].
        injection H as <- <-. rewrite <- Em, app_nil_r. split; reflexivity.
      * apply Forall_app. split; [exact P0|exact (written_pos c be _ _ _ M0 Hst Wc)].
Qed.

(* ---------- what the bar sounds like ---------- *)
Definition heard (be : Z) (n : inote) : snote := mkSN (i_pitch n) (i_start n) (Z.min (i_end n) be - i_start n) (i_vel n).

Definition quiet (l : list tnote) : Prop := Forall (fun x => is_rest x = true) l.

Lemma sounding_quiet c : forall l ref t, quiet l -> sounding ref (part_items l c t) = Some [].
Proof.
  induction l as [|x l IH]; intros ref t Q; [reflexivity|]. inversion Q as [|? ? Hx Hl]; subst.
  cbn [part_items sounding]. rewrite Hx. cbn [orb]. apply IH. exact Hl.
Qed.

Lemma run_head_not_cont c x l t : is_cont x = false -> run (part_items (x :: l) c t) = 0.
Proof. intros H. cbn [part_items run]. rewrite H. reflexivity. Qed.

Lemma written_sounds c be : elem_ok c -> forall notes le w post ref,
  monophonic le notes -> Forall (fun n => i_start n < be) notes -> written c notes le be = Some w -> quiet post ->
  sounding ref (part_items (w ++ post) c le) = Some (map (heard be) notes).
Proof.
  intros He. induction notes as [|n notes IH]; intros le w post ref Hm Hst H Q.
  - injection H as <-. cbn [app map]. apply sounding_quiet. exact Q.
  - cbn [monophonic] in Hm. destruct Hm as (H1 & H2 & H3). cbn [written] in H.
    destruct (parse_roundtrip c (i_pitch n) He) as (pn & Hp & Hpitch & Hdir & _ & _ & Hkind). rewrite Hp in H. cbn [obind] in H.
    destruct (written c notes (i_end n) be) as [rest|] eqn:R; [|discriminate]. cbn [obind] in H. injection H as <-.
    pose proof (Forall_inv Hst) as Hs0. cbn beta in Hs0. pose proof (Forall_inv_tail Hst) as Hst'.
    set (x := mkTN pn (Z.min (i_end n) be - i_start n) (i_vel n)).
    assert (Hx : is_rest x = false /\ is_cont x = false).
    { unfold is_rest, is_cont, x. cbn [tn]. destruct Hkind as [(K & _)|(K & _)]; rewrite K; split; reflexivity. }
    assert (Hpf : forall last, pitch_full c (tn x) last = Some (Some (i_pitch n))).
    { intros last. unfold pitch_full, x. cbn [tn]. rewrite Hdir. destruct Hkind as [(K & _)|(K & _)]; rewrite K; exact Hpitch. }
    (* the items after the note *)
    assert (Tail : sounding (Some (i_pitch n)) (part_items (rest ++ post) c (i_start n + tdur x)) = Some (map (heard be) notes)
                   /\ run (part_items (rest ++ post) c (i_start n + tdur x)) = 0).
    { destruct notes as [|n2 notes2].
      - cbn in R. injection R as <-. cbn [app map]. split; [apply sounding_quiet; exact Q|].
        destruct post as [|p0 post']; [reflexivity|]. inversion Q as [|? ? Hp0 _]; subst.
        apply run_head_not_cont. unfold is_rest, is_cont in *. destruct (pkind (tn p0)); try discriminate; reflexivity.
      - cbn [monophonic] in H3. pose proof (Forall_inv Hst') as Hs2. cbn beta in Hs2.
        assert (Et : i_start n + tdur x = i_end n) by (unfold x; cbn [tdur]; lia). rewrite Et.
        split; [apply (IH _ _ _ _ ltac:(cbn [monophonic]; exact H3) Hst' R Q)|].
        cbn [written] in R. destruct (parse_roundtrip c (i_pitch n2) He) as (pn2 & Hp2 & _ & _ & _ & _ & Hk2). rewrite Hp2 in R. cbn [obind] in R.
        destruct (written c notes2 (i_end n2) be) as [rest2|]; [|discriminate]. cbn [obind] in R. injection R as <-.
        destruct (i_end n <? i_start n2); cbn [app]; apply run_head_not_cont; [reflexivity|].
        unfold is_cont. cbn [tn]. destruct Hk2 as [(K & _)|(K & _)]; rewrite K; reflexivity. }
    destruct Tail as (Ts & Tr).
    assert (Main : sounding ref (part_items ((x :: rest) ++ post) c (i_start n)) = Some (map (heard be) (n :: notes))).
    { cbn [app part_items sounding]. destruct Hx as [Hr Hc]. rewrite Hr, Hc. cbn [orb]. rewrite Hpf. cbn [obind].
      rewrite Ts. cbn [obind map]. rewrite Tr. unfold heard at 2, x. cbn [tdur tamp]. rewrite Z.add_0_r. reflexivity. }
    destruct (le <? i_start n) eqn:E.
    + cbn [app part_items sounding]. unfold is_rest at 1. cbn [silence tn pkind kind_eqb orb tdur].
      replace (le + (i_start n - le)) with (i_start n) by lia. exact Main.
    + assert (le = i_start n) as -> by lia. exact Main.
Qed.

(* the melody written for a bar, rendered by the Spec of C03 from the bar's start: exactly the input notes - pitch, onset,
   duration cut at the bar line, velocity - whatever comes in; what is cut off goes out as the tie *)
Theorem parse_voice_sounds c n0 notes bs be cont mel ret ref :
  elem_ok c -> bs < be ->
  monophonic (match cont with Some d => bs + d | None => bs end) (n0 :: notes) ->
  (forall d, cont = Some d -> 0 <= d) ->
  Forall (fun n => i_start n < be) (n0 :: notes) ->
  parse_voice c (n0 :: notes) bs be cont = Some (mel, ret) ->
  sounding ref (part_items mel c bs) = Some (map (heard be) (n0 :: notes)) /\
  ret = (let fin := last_end (match cont with Some d => bs + d | None => i_start n0 end) (n0 :: notes) in
         if be <? fin then Some (fin - be) else None).
Proof.
  intros He Hb Hm Hc Hst H.
  destruct (parse_voice_content c n0 notes bs be cont mel ret Hb Hm Hc Hst H) as (w & Hw & -> & ->).
  split; [|reflexivity].
  set (le0 := match cont with Some d => bs + d | None => i_start n0 end) in *.
  assert (M0 : monophonic le0 (n0 :: notes)).
  { unfold le0. destruct cont as [d|]; [exact Hm|]. cbn [monophonic] in Hm |- *. destruct Hm as (A & B & C). repeat split; try lia. exact C. }
  assert (Q : quiet (if last_end le0 (n0 :: notes) <? be then [silence (be - last_end le0 (n0 :: notes))] else [])).
  { destruct (_ <? be); repeat constructor. }
  pose proof (written_sounds c be He _ _ _ _ ref M0 Hst Hw Q) as S.
  unfold bar_prefix. destruct cont as [d|].
  - specialize (Hc d eq_refl). destruct (0 <? d) eqn:E.
    + cbn [app part_items sounding]. unfold is_rest at 1, is_cont at 1. cbn [continuation tn pkind kind_eqb orb tdur]. exact S.
    + assert (d = 0) as -> by lia. unfold le0 in S. rewrite Z.add_0_r in S. exact S.
  - cbn [monophonic] in Hm. destruct (bs <? i_start n0) eqn:E.
    + cbn [app part_items sounding]. unfold is_rest at 1. cbn [silence tn pkind kind_eqb orb tdur].
      replace (bs + (i_start n0 - bs)) with (i_start n0) by lia. exact S.
    + assert (bs = i_start n0) as -> by lia. exact S.
Qed.

(* non-vacuity: an incoming tie of 1, two notes, the second held 3 ticks beyond the bar line *)
Example parse_voice_sounds_ex :
  let c := mkC 0 (bare "") (mkT 0 MMaj 0) 0 in
  option_map (fun x => (map tdur (fst x), snd x)) (parse_voice c [mkIN 2 3 4 80; mkIN 3 7 7 90] 0 4 (Some 1)) = Some ([1; 1; 1; 1], Some 3) /\
  (do x <- parse_voice c [mkIN 2 3 4 80; mkIN 3 7 7 90] 0 4 (Some 1) ;; sounding None (part_items (fst x) c 0)) =
    Some [mkSN 4 2 1 80; mkSN 7 3 1 90].
Proof. split; vm_compute; reflexivity. Qed.

(* C08: the notes written in a music21 voice ARE the sounding notes of the part.
   Stage A: the tie / rest machine of chord_instrument_to_notes (flags last_is_silence, old_is_silence, re-armed at every
   chord) is, on scores whose present parts are not empty, a three-field machine (last midi, last pitch, "a continuation
   now would be a rest") run over the part's events: its notes chord after chord, a gap where the part is absent or
   shorter than its chord.
   Stage B: reading the produced voice as music does - a note element starts a sounding note at its position, directly
   following tied elements prolong it, everything else is silence - gives exactly: each written pitched note, with pitch
   60 + its rendered pitch (reference = the last sounded pitch of the part), at the sum of the durations before it,
   lasting its own duration plus the continuations that directly follow it.
   Stage C: when the part is present in every chord and lasts as long as each, that is the Spec of C03 (RenderSpec.sounding_of). *)
From ML Require Import Model.Types gen.Tables Model.Pitch Model.Rel Model.Render Model.Slice Model.Mxl Spec.RenderSpec.
From ML Require Import Proofs.RenderProofs Proofs.SliceProofs Proofs.MxlProofs Proofs.MxlVoice.
From Coq Require Import Lia ZifyBool.
Open Scope Z_scope.
Open Scope list_scope.

(* ---------- events of a part ---------- *)
Inductive ev := ENote (c : chord) (n : tnote) | EGap (d : Z).

Definition chord_events (track : string) (c : rchord) : list ev :=
  match plook track (rparts c) with
  | Some part => map (ENote (rc c)) part ++
                 (if part_dur part <? rchord_dur c then [EGap (rchord_dur c - part_dur part)] else [])
  | None => [EGap (rchord_dur c)]
  end.

Definition events (s : rscore) (track : string) : list ev := concat (map (chord_events track) s).

(* ---------- the abstract machine ---------- *)
Record ast := mkA { a_midi : option Z; a_pitch : option Z; a_sil : bool }.

Definition astep1 (s : ast) (e : ev) : option (ast * list mel) :=
  match e with
  | EGap d => Some (mkA (a_midi s) (a_pitch s) true, [(None, d, false)])
  | ENote c n =>
      match pkind (tn n) with
      | KR => Some (mkA (a_midi s) (a_pitch s) true, [(None, tdur n, false)])
      | KL =>
          match a_midi s with
          | Some m => if a_sil s then Some (mkA (a_midi s) (a_pitch s) true, [(None, tdur n, false)])
                      else Some (s, [(Some m, tdur n, true)])
          | None => Some (mkA (a_midi s) (a_pitch s) true, [(None, tdur n, false)])
          end
      | KD | KX => Some (s, [])
      | _ =>
          do last <- (match pdir (tn n), a_pitch s with
                      | Abs, _ => Some 0
                      | _, Some l => Some l
                      | _, None => None
                      end) ;;
          do pr <- pitch_full c (tn n) last ;;
          do p <- pr ;;
          do m <- spelled_midi c p ;;
          Some (mkA (Some m) (Some p) false, [(Some m, tdur n, false)])
      end
  end.

Fixpoint arun (s : ast) (l : list ev) : option (ast * list mel) :=
  match l with
  | [] => Some (s, [])
  | e :: r => do x <- astep1 s e ;; do y <- arun (fst x) r ;; Some (fst y, snd x ++ snd y)
  end.

Lemma arun_app s l1 l2 :
  arun s (l1 ++ l2) = do x <- arun s l1 ;; do y <- arun (fst x) l2 ;; Some (fst y, snd x ++ snd y).
Proof.
  revert s. induction l1 as [|e l1 IH]; intros s; cbn [app arun obind fst snd].
  - destruct (arun s l2) as [[a o]|]; reflexivity.
  - destruct (astep1 s e) as [[a1 o1]|]; cbn [obind fst snd]; [|reflexivity].
    rewrite IH. destruct (arun a1 l1) as [[a2 o2]|]; cbn [obind fst snd]; [|reflexivity].
    destruct (arun a2 l2) as [[a3 o3]|]; cbn [obind fst snd]; [|reflexivity]. rewrite app_assoc. reflexivity.
Qed.

(* ---------- stage A: simulation ---------- *)
Definition abs (v : vstate) : ast := mkA (v_midi v) (v_pitch v) (v_old v || v_sil v).

(* between chords: old_is_silence implies last_is_silence *)
Definition J (v : vstate) : Prop := v_old v = true -> v_sil v = true.

Lemma note_step_sim c n v out v' out' : pkind (tn n) <> KD -> pkind (tn n) <> KX ->
  note_step c (Some (v, out)) n = Some (v', out') ->
  J v' /\ exists o, out' = out ++ o /\ astep1 (abs v) (ENote c n) = Some (abs v', o).
Proof.
  intros Hd Hx. unfold note_step, astep1, J. cbn [obind].
  destruct (pkind (tn n)) eqn:K; try congruence.
  1-5: (cbn [abs a_pitch];
        destruct (match pdir (tn n), v_pitch v with Abs, _ => Some 0 | _, Some l => Some l | _, None => None end) as [last|]; [|discriminate]; cbn [obind];
        destruct (pitch_full c (tn n) last) as [[p|]|]; try discriminate; cbn [obind];
        destruct (spelled_midi c p) as [m|]; [|discriminate]; cbn [obind]; intros H; injection H as <- <-;
        split; [cbn; congruence|eexists; split; reflexivity]).
  - intros H. injection H as <- <-. split; [cbn; congruence|]. eexists. split; [reflexivity|].
    unfold abs. cbn [v_midi v_pitch v_old v_sil a_midi a_pitch]. rewrite Bool.orb_true_r. reflexivity.
  - unfold abs. cbn [a_midi a_sil a_pitch]. destruct (v_midi v) as [m|] eqn:M.
    + destruct (v_old v) eqn:O; cbn [orb].
      * intros H. injection H as <- <-. split; [cbn; congruence|]. eexists. split; [reflexivity|].
        cbn [v_midi v_pitch v_old v_sil]. rewrite ?M, ?O; reflexivity.
      * destruct (v_sil v) eqn:S; intros H; injection H as <- <-.
        -- split; [cbn; congruence|]. eexists. split; [reflexivity|]. cbn [v_midi v_pitch v_old v_sil]. rewrite ?M, ?O; reflexivity.
        -- split; [cbn; congruence|]. eexists. split; [reflexivity|]. cbn [v_midi v_pitch v_old v_sil]. rewrite ?M, ?O; reflexivity.
    + intros H. injection H as <- <-. split; [cbn; congruence|]. eexists. split; [reflexivity|].
      cbn [v_midi v_pitch v_old v_sil]. rewrite ?M, ?Bool.orb_true_r; reflexivity.
Qed.

Lemma fold_none {A B} (f : option A -> B -> option A) (Hf : forall b, f None b = None) l : fold_left f l None = None.
Proof. induction l as [|b l IH]; cbn [fold_left]; [reflexivity|]. rewrite Hf. exact IH. Qed.

Lemma note_step_none c n : note_step c None n = None. Proof. reflexivity. Qed.
Lemma chord_step_none track c : chord_step track None c = None. Proof. reflexivity. Qed.

Lemma part_sim c : forall part v out v' out', writable part ->
  fold_left (note_step c) part (Some (v, out)) = Some (v', out') ->
  (part <> [] -> J v') /\ exists o, out' = out ++ o /\ arun (abs v) (map (ENote c) part) = Some (abs v', o).
Proof.
  induction part as [|n r IH]; intros v out v' out' Hw H; cbn [fold_left map arun] in *.
  - injection H as <- <-. split; [congruence|]. exists []. rewrite app_nil_r. split; reflexivity.
  - inversion Hw as [|? ? [Hd Hx] Hr]; subst.
    destruct (note_step c (Some (v, out)) n) as [[v1 out1]|] eqn:E; [|rewrite (fold_none _ (note_step_none c)) in H; discriminate].
    destruct (note_step_sim _ _ _ _ _ _ Hd Hx E) as (J1 & o1 & -> & A1).
    destruct (IH _ _ _ _ Hr H) as (J2 & o2 & -> & A2).
    split.
    + intros _. destruct r as [|n2 r2]; [cbn [fold_left] in H; injection H as <- _; exact J1|apply J2; congruence].
    + exists (o1 ++ o2). rewrite app_assoc. split; [reflexivity|]. rewrite A1. cbn [obind fst snd]. rewrite A2. reflexivity.
Qed.

(* the parts of the track: not empty, and writing something for every note (no drum / pattern notes) *)
Definition solid_score (s : rscore) (track : string) : Prop :=
  Forall (fun c => match plook track (rparts c) with Some part => writable part /\ part <> [] | None => True end) s.

Lemma chord_sim track c v out v' out' :
  (match plook track (rparts c) with Some part => writable part /\ part <> [] | None => True end) -> J v ->
  chord_step track (Some (v, out)) c = Some (v', out') ->
  J v' /\ exists o, out' = out ++ o /\ arun (abs v) (chord_events track c) = Some (abs v', o).
Proof.
  intros Hc Jv. unfold chord_step, chord_events. cbn [obind].
  destruct (plook track (rparts c)) as [part|] eqn:P.
  - destruct Hc as [Hw Hne].
    destruct (fold_left (note_step (rc c)) part (Some (mkVS (v_midi v) (v_pitch v) false (v_sil v), out))) as [[v2 out2]|] eqn:F; [|discriminate].
    cbn [obind]. destruct (part_sim _ _ _ _ _ _ Hw F) as (J2 & o2 & -> & A2). specialize (J2 Hne).
    assert (E0 : abs (mkVS (v_midi v) (v_pitch v) false (v_sil v)) = abs v).
    { unfold abs. cbn [v_midi v_pitch v_old v_sil]. rewrite Bool.orb_false_r. unfold J in Jv.
      destruct (v_old v); [rewrite (Jv eq_refl); reflexivity|reflexivity]. }
    rewrite E0 in A2. rewrite arun_app, A2. cbn [obind fst snd].
    destruct (part_dur part <? rchord_dur c); intros H; injection H as <- <-.
    + split; [unfold J; cbn; congruence|]. eexists. split; [rewrite <- app_assoc; reflexivity|].
      cbn [arun astep1 obind fst snd]. unfold abs. cbn [v_midi v_pitch v_old v_sil a_midi a_pitch]. rewrite Bool.orb_true_r. reflexivity.
    + split; [exact J2|]. exists o2. split; [reflexivity|]. cbn [arun obind fst snd]. rewrite app_nil_r. reflexivity.
  - intros H. injection H as <- <-. split; [unfold J; cbn; congruence|]. eexists. split; [reflexivity|].
    cbn [arun astep1 obind fst snd]. unfold abs. cbn [v_midi v_pitch v_old v_sil a_midi a_pitch]. rewrite Bool.orb_true_r. reflexivity.
Qed.

Lemma score_sim track : forall s v out v' out', solid_score s track -> J v ->
  fold_left (chord_step track) s (Some (v, out)) = Some (v', out') ->
  exists o, out' = out ++ o /\ arun (abs v) (events s track) = Some (abs v', o).
Proof.
  induction s as [|c r IH]; intros v out v' out' Hs Jv H; cbn [fold_left] in H.
  - injection H as <- <-. exists []. rewrite app_nil_r. split; reflexivity.
  - inversion Hs as [|? ? Hc Hr]; subst.
    destruct (chord_step track (Some (v, out)) c) as [[v1 out1]|] eqn:E; [|rewrite (fold_none _ (chord_step_none track)) in H; discriminate].
    destruct (chord_sim _ _ _ _ _ _ Hc Jv E) as (J1 & o1 & -> & A1).
    destruct (IH _ _ _ _ Hr J1 H) as (o2 & -> & A2).
    exists (o1 ++ o2). rewrite app_assoc. split; [reflexivity|].
    unfold events. cbn [map concat]. rewrite arun_app, A1. cbn [obind fst snd]. unfold events in A2. rewrite A2. reflexivity.
Qed.

Theorem voice_is_machine s track out : solid_score s track -> voice_of s track = Some out ->
  exists a, arun (mkA None None true) (events s track) = Some (a, out).
Proof.
  unfold voice_of. intros Hs H.
  destruct (fold_left (chord_step track) s (Some (mkVS None None true true, []))) as [[v' out']|] eqn:E; [|discriminate].
  injection H as <-. assert (J0 : J (mkVS None None true true)) by (unfold J; cbn; congruence).
  destruct (score_sim track s _ _ _ _ Hs J0 E) as (o & -> & A). exists (abs v'). exact A.
Qed.

(* ---------- stage B: the voice, read as music, is the sounding notes ---------- *)
(* (midi number, onset, duration) *)
Definition snd3 := (Z * Z * Z)%type.

(* a voice read as music: a note element starts a sounding note, the tied elements that directly follow prolong it *)
Fixpoint mrun (l : list mel) : Z :=
  match l with
  | (Some _, d, true) :: r => d + mrun r
  | _ => 0
  end.
Fixpoint msound (t : Z) (l : list mel) : list snd3 :=
  match l with
  | [] => []
  | (Some m, d, false) :: r => (m, t, d + mrun r) :: msound (t + d) r
  | (_, d, _) :: r => msound (t + d) r
  end.

(* the sounding notes of the events: each pitched note at the sum of the durations before it, with the pitch rendered from
   the last sounded pitch of the part, lasting its duration plus the continuations that directly follow *)
Fixpoint erun (l : list ev) : Z :=
  match l with
  | ENote _ n :: r => if is_cont n then tdur n + erun r else 0
  | _ => 0
  end.
Fixpoint esound (ref : option Z) (t : Z) (l : list ev) : option (list snd3) :=
  match l with
  | [] => Some []
  | EGap d :: r => esound ref (t + d) r
  | ENote c n :: r =>
      if is_rest n || is_cont n then esound ref (t + tdur n) r
      else
        do last <- (match pdir (tn n), ref with
                    | Abs, _ => Some 0
                    | _, Some l => Some l
                    | _, None => None
                    end) ;;
        do pr <- pitch_full c (tn n) last ;;
        do p <- pr ;;
        do rest <- esound (Some p) (t + tdur n) r ;;
        Some ((p + 60, t, tdur n + erun r) :: rest)
  end.

Definition ev_ok (e : ev) : Prop :=
  match e with
  | ENote c n => pkind (tn n) <> KD /\ pkind (tn n) <> KX /\ 0 <= tdeg (cton c) < 12
  | EGap _ => True
  end.

Lemma mrun_app_nil o : mrun ((None, 0, false) :: o) = 0. Proof. reflexivity. Qed.

(* after a note, and through the ties that follow it, the machine keeps tying *)
Lemma arun_run : forall E s a' o m, a_midi s = Some m -> a_sil s = false -> Forall ev_ok E ->
  arun s E = Some (a', o) -> mrun o = erun E.
Proof.
  induction E as [|e r IH]; intros s a' o m Hm Hs Hok H; cbn [arun] in H.
  - injection H as _ <-. reflexivity.
  - inversion Hok as [|? ? He Hr]; subst. destruct e as [c n|d]; cbn [astep1 erun] in *.
    + destruct He as (Hd & Hx & Ht). unfold is_cont. destruct (pkind (tn n)) eqn:K; try congruence; cbn [kind_eqb].
      1-5: (destruct (match pdir (tn n), a_pitch s with Abs, _ => Some 0 | _, Some l => Some l | _, None => None end) as [last|]; [|discriminate]; cbn [obind] in H;
            destruct (pitch_full c (tn n) last) as [[p|]|]; try discriminate; cbn [obind] in H;
            destruct (spelled_midi c p) as [mm|]; [|discriminate]; cbn [obind fst snd] in H;
            destruct (arun _ r) as [[a2 o2]|]; [|discriminate]; cbn [obind fst snd] in H; injection H as _ <-; reflexivity).
      * cbn [obind fst snd] in H. destruct (arun _ r) as [[a2 o2]|]; [|discriminate]. cbn [obind fst snd] in H. injection H as _ <-. reflexivity.
      * rewrite Hm, Hs in H. cbn [obind fst snd] in H. destruct (arun s r) as [[a2 o2]|] eqn:R; [|discriminate].
        cbn [obind fst snd] in H. injection H as _ <-. cbn [app mrun]. rewrite (IH _ _ _ _ Hm Hs Hr R). reflexivity.
    + cbn [obind fst snd] in H. destruct (arun _ r) as [[a2 o2]|]; [|discriminate]. cbn [obind fst snd] in H. injection H as _ <-. reflexivity.
Qed.

Lemma arun_sound : forall E s a' o t, Forall ev_ok E -> arun s E = Some (a', o) ->
  esound (a_pitch s) t E = Some (msound t o).
Proof.
  induction E as [|e r IH]; intros s a' o t Hok H; cbn [arun] in H.
  - injection H as _ <-. reflexivity.
  - inversion Hok as [|? ? He Hr]; subst. destruct e as [c n|d]; cbn [astep1 esound] in *.
    + destruct He as (Hd & Hx & Ht). unfold is_rest, is_cont. destruct (pkind (tn n)) eqn:K; try congruence; cbn [kind_eqb orb].
      1-5: (destruct (match pdir (tn n), a_pitch s with Abs, _ => Some 0 | _, Some l => Some l | _, None => None end) as [last|]; [|discriminate]; cbn [obind] in H |- *;
            destruct (pitch_full c (tn n) last) as [[p|]|]; try discriminate; cbn [obind] in H |- *;
            rewrite (spelled_midi_ok c p Ht) in H; cbn [obind fst snd] in H;
            destruct (arun _ r) as [[a2 o2]|] eqn:R; [|discriminate]; cbn [obind fst snd] in H; injection H as _ <-;
            pose proof (IH _ _ _ (t + tdur n) Hr R) as Q; cbn [a_pitch] in Q; rewrite Q; cbn [obind app msound];
            rewrite (arun_run r (mkA (Some (p + 60)) (Some p) false) _ _ (p + 60) eq_refl eq_refl Hr R); reflexivity).
      * cbn [obind fst snd] in H. destruct (arun _ r) as [[a2 o2]|] eqn:R; [|discriminate]. cbn [obind fst snd] in H. injection H as _ <-.
        pose proof (IH _ _ _ (t + tdur n) Hr R) as Q; cbn [a_pitch] in Q; rewrite Q; reflexivity.
      * destruct (a_midi s) as [m|] eqn:M.
        -- destruct (a_sil s) eqn:S; cbn [obind fst snd] in H; destruct (arun _ r) as [[a2 o2]|] eqn:R; try discriminate;
             cbn [obind fst snd] in H; injection H as _ <-; pose proof (IH _ _ _ (t + tdur n) Hr R) as Q; cbn [a_pitch] in Q; rewrite Q; reflexivity.
        -- cbn [obind fst snd] in H. destruct (arun _ r) as [[a2 o2]|] eqn:R; [|discriminate]. cbn [obind fst snd] in H. injection H as _ <-.
           pose proof (IH _ _ _ (t + tdur n) Hr R) as Q; cbn [a_pitch] in Q; rewrite Q; reflexivity.
    + cbn [obind fst snd] in H. destruct (arun _ r) as [[a2 o2]|] eqn:R; [|discriminate]. cbn [obind fst snd] in H. injection H as _ <-.
      pose proof (IH _ _ _ (t + d) Hr R) as Q; cbn [a_pitch] in Q; rewrite Q; reflexivity.
Qed.

Definition tonics_ok (s : rscore) : Prop := Forall (fun c => 0 <= tdeg (cton (rc c)) < 12) s.

Lemma events_ok s track : solid_score s track -> tonics_ok s -> Forall ev_ok (events s track).
Proof.
  intros Hs Ht. unfold events. induction s as [|c r IH]; cbn [map concat]; [constructor|].
  inversion Hs as [|? ? Hc Hr]; subst. inversion Ht as [|? ? Tc Tr]; subst.
  apply Forall_app. split; [|exact (IH Hr Tr)].
  unfold chord_events. destruct (plook track (rparts c)) as [part|]; [|repeat constructor].
  destruct Hc as [Hw _]. apply Forall_app. split.
  - clear - Hw Tc. induction Hw as [|n l [Hd Hx] _ IHw]; cbn [map]; constructor; [repeat split; try assumption; lia|exact IHw].
  - destruct (part_dur part <? rchord_dur c); repeat constructor.
Qed.

(* the voice written for a part, read as music, is exactly the part's sounding notes (midi = 60 + rendered pitch) *)
Theorem voice_is_sounding s track out : solid_score s track -> tonics_ok s -> voice_of s track = Some out ->
  esound None 0 (events s track) = Some (msound 0 out).
Proof.
  intros Hs Ht H. destruct (voice_is_machine s track out Hs H) as (a & A).
  exact (arun_sound _ _ _ _ 0 (events_ok s track Hs Ht) A).
Qed.

(* ---------- stage C: parts present throughout - the Spec of C03 ---------- *)
Definition to3 (x : snote) : snd3 := (s_pitch x + 60, s_on x, s_dur x).

Definition full_part (s : rscore) (track : string) : Prop :=
  Forall (fun c => exists part, plook track (rparts c) = Some part /\ part_dur part = rchord_dur c) s.

Lemma pitch_full_abs c n l1 l2 : pdir n = Abs -> pitch_full c n l1 = pitch_full c n l2.
Proof. unfold pitch_full. intros ->. destruct (pkind n); reflexivity. Qed.

Definition Link (t : Z) (E : list ev) (I : list item) : Prop :=
  erun E = run I /\
  forall ref sn, esound ref t E = Some sn -> exists l, sounding ref I = Some l /\ sn = map to3 l.

Lemma part_link c : forall part t E I, Link (t + part_dur part) E I ->
  Link t (map (ENote c) part ++ E) (part_items part c t ++ I).
Proof.
  induction part as [|n r IH]; intros t E I L; cbn [map app part_items].
  - rewrite part_dur_nil, Z.add_0_r in L. exact L.
  - rewrite part_dur_cons, Z.add_assoc in L. destruct (IH (t + tdur n) E I L) as [R S]. split.
    + cbn [erun run]. rewrite R. reflexivity.
    + intros ref sn. cbn [esound sounding]. destruct (is_rest n || is_cont n); [apply S|].
      destruct (pdir (tn n)) eqn:D.
      * cbn [obind]. rewrite (pitch_full_abs c (tn n) 0 (match ref with Some p => p | None => 0 end) D).
        destruct (pitch_full c (tn n) _) as [[p|]|]; cbn [obind]; try discriminate.
        destruct (esound (Some p) (t + tdur n) (map (ENote c) r ++ E)) as [rest|] eqn:Er; cbn [obind]; [|discriminate].
        destruct (S _ _ Er) as (l & Hl & ->). rewrite Hl. cbn [obind]. intros H. injection H as <-.
        eexists. split; [reflexivity|]. cbn [map]. unfold to3 at 2. cbn [s_pitch s_on s_dur]. rewrite R. reflexivity.
      * destruct ref as [l0|]; cbn [obind]; [|discriminate].
        destruct (pitch_full c (tn n) l0) as [[p|]|]; cbn [obind]; try discriminate.
        destruct (esound (Some p) (t + tdur n) (map (ENote c) r ++ E)) as [rest|] eqn:Er; cbn [obind]; [|discriminate].
        destruct (S _ _ Er) as (l & Hl & ->). rewrite Hl. cbn [obind]. intros H. injection H as <-.
        eexists. split; [reflexivity|]. cbn [map]. unfold to3 at 2. cbn [s_pitch s_on s_dur]. rewrite R. reflexivity.
      * destruct ref as [l0|]; cbn [obind]; [|discriminate].
        destruct (pitch_full c (tn n) l0) as [[p|]|]; cbn [obind]; try discriminate.
        destruct (esound (Some p) (t + tdur n) (map (ENote c) r ++ E)) as [rest|] eqn:Er; cbn [obind]; [|discriminate].
        destruct (S _ _ Er) as (l & Hl & ->). rewrite Hl. cbn [obind]. intros H. injection H as <-.
        eexists. split; [reflexivity|]. cbn [map]. unfold to3 at 2. cbn [s_pitch s_on s_dur]. rewrite R. reflexivity.
Qed.

Lemma score_link track : forall s t, full_part s track -> Link t (events s track) (items s track t).
Proof.
  induction s as [|c r IH]; intros t F.
  - split; [reflexivity|]. intros ref sn H. cbn in H. injection H as <-. exists []. split; reflexivity.
  - inversion F as [|? ? (part & P & D) Fr]; subst.
    unfold events. cbn [map concat items]. unfold chord_events. rewrite P.
    assert (Z.ltb (part_dur part) (rchord_dur c) = false) as -> by lia. rewrite app_nil_r.
    apply part_link. rewrite D. exact (IH _ Fr).
Qed.

(* for a part that is present in every chord and lasts as long as each: the voice, read as music, is the list of sounding
   notes of the Spec of C03 (onset, duration with the continuations, pitch + 60) - what the MIDI rendering plays *)
Theorem voice_is_rendering s track out : solid_score s track -> tonics_ok s -> full_part s track ->
  voice_of s track = Some out ->
  exists l, sounding_of s track = Some l /\ msound 0 out = map to3 l.
Proof.
  intros Hs Ht F H. pose proof (voice_is_sounding s track out Hs Ht H) as E.
  destruct (score_link track s 0 F) as [_ S]. destruct (S _ _ E) as (l & Hl & Hm).
  exists l. split; [exact Hl|exact Hm].
Qed.

(* non-vacuity: a tied chain, a rest, a continuation after the rest (silent), a chord change with a continuation tied over it *)
Example voice_is_rendering_ex :
  let nt k v du := mkTN (mkP k Abs v 0 None None) du 66 in
  let s := [mkRC (mkC 0 (bare "") (mkT 1 MMin 0) 0) [("p"%string, [nt KS 6 2; nt KL 0 1; nt KR 0 1; nt KL 0 1; nt KS 2 1])];
            mkRC (mkC 4 (bare "") (mkT 1 MMin 0) 0) [("p"%string, [nt KL 0 1; nt KS 0 2])]] in
  option_map (msound 0) (voice_of s "p") = Some [(72, 0, 3); (64, 5, 2); (68, 7, 2)] /\
  option_map (map to3) (sounding_of s "p") = Some [(72, 0, 3); (64, 5, 2); (68, 7, 2)].
Proof. split; vm_compute; reflexivity. Qed.

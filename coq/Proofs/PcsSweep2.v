From ML Require Import Model.Types Proofs.PcsDefs.
Lemma sweep_2 : sweep_elem 2 = true.
Proof. vm_compute. reflexivity. Qed.

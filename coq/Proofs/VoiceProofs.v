From ML Require Import Model.Types gen.Tables Model.Pitch Model.Ext Model.Ton Model.Rel Model.Render Model.Slice Model.Renote Model.Voice.
From ML Require Import Spec.PitchSpec Proofs.PitchProofs Proofs.TonProofs Proofs.RenoteProofs.
From Coq Require Import Lia ZifyBool.
Open Scope Z_scope.
Open Scope list_scope.
Ltac Zify.zify_post_hook ::= Z.to_euclidean_division_equations.

(* ================= VoiceLeading: folding value + delta back into the note system ================= *)
Lemma fold_arg nb v o : nb <> 0 -> v mod nb + nb * (o + v / nb) = v + nb * o.
Proof. intros H. pose proof (Z.div_mod v nb H). lia. Qed.

Lemma fold_note_range nb n d : 0 < nb -> 0 <= pval (fold_note nb n d) < nb.
Proof. intros H. unfold fold_note. cbn [pval]. apply Z.mod_pos_bound. exact H. Qed.

Definition moved (n : pnote) (d : Z) : pnote := mkP (pkind n) (pdir n) (pval n + d) (poct n) (pmode n) (pacc n).

Lemma moved_0 n : moved n 0 = n.
Proof. destruct n. unfold moved. cbn. rewrite Z.add_0_r. reflexivity. Qed.

Lemma real_chord_fold nb n d c : real_chord (fold_note nb n d) c = real_chord (moved n d) c.
Proof. reflexivity. Qed.

(* folding is pitch-neutral: the corrected note sounds like the note moved by d steps of its own system *)
Lemma fold_note_pitch c n d nb : cand_len c (pkind n) = Some nb -> nb <> 0 ->
  (pkind n = KS -> pacc n = None) ->
  to_pitch_abs c (fold_note nb n d) = to_pitch_abs c (moved n d).
Proof.
  intros Hc Hn Ha. unfold to_pitch_abs. cbn [fold_note moved pkind].
  destruct (pkind n) eqn:K; try reflexivity; cbn [cand_len] in Hc.
  - (* s *)
    specialize (Ha eq_refl). unfold pitch_basic. cbn [fold_note moved pkind pacc pval poct]. rewrite K, Ha.
    rewrite real_chord_fold.
    destruct (chord_scale (real_chord (moved n d) c)) as [sp|] eqn:E; [|reflexivity]. cbn [obind].
    assert (L1 : zlen sp = 7) by (unfold zlen; rewrite (chord_scale_length _ _ E); reflexivity).
    destruct (chord_scale c) as [sp0|] eqn:E0; [|discriminate]. cbn [option_map] in Hc.
    assert (L0 : zlen sp0 = 7) by (unfold zlen; rewrite (chord_scale_length _ _ E0); reflexivity).
    assert (nb = 7) by congruence. subst nb.
    do 2 f_equal. pose proof (fold_arg 7 (pval n + d) (poct n)). lia.
  - (* h *)
    assert (nb = 12) by congruence. subst nb.
    unfold pitch_basic. cbn [fold_note moved pkind pacc pval poct]. rewrite K. rewrite real_chord_fold.
    destruct (chord_scale (real_chord (moved n d) c)) as [sp|]; [|reflexivity]. cbn [obind].
    do 2 f_equal. pose proof (fold_arg 12 (pval n + d) (poct n)). lia.
  - (* c *)
    destruct (chord_pitches c) as [cp|]; [|discriminate]. cbn [option_map] in Hc. cbn [obind].
    assert (nb = zlen cp) by congruence. subst nb. cbn [fold_note moved pval poct].
    do 2 f_equal. pose proof (fold_arg (zlen cp) (pval n + d) (poct n) Hn). lia.
  - (* b *)
    destruct (chord_extension_pitches c) as [cp|]; [|discriminate]. cbn [option_map] in Hc. cbn [obind].
    assert (nb = zlen cp) by congruence. subst nb. cbn [fold_note moved pval poct].
    do 2 f_equal. pose proof (fold_arg (zlen cp) (pval n + d) (poct n) Hn). lia.
  - (* a *)
    assert (nb = 12) by congruence. subst nb.
    unfold pitch_basic. cbn [fold_note moved pkind pacc pval poct]. rewrite K. rewrite real_chord_fold.
    destruct (chord_scale (real_chord (moved n d) c)) as [sp|]; [|reflexivity]. cbn [obind].
    do 2 f_equal. pose proof (fold_arg 12 (pval n + d) (poct n)). lia.
Qed.

(* a voice whose delta is 0 keeps its pitch (the note may be re-spelled: s7 -> s0.o(1)) *)
Lemma fold_note_fixed c n nb : cand_len c (pkind n) = Some nb -> nb <> 0 ->
  (pkind n = KS -> pacc n = None) -> to_pitch_abs c (fold_note nb n 0) = to_pitch_abs c n.
Proof. intros. rewrite (fold_note_pitch c n 0 nb) by assumption. rewrite moved_0. reflexivity. Qed.

Lemma correct_first_fixed c n n' : correct_first c n 0 = Some n' ->
  (pkind (tn n) = KS -> pacc (tn n) = None) ->
  to_pitch_abs c (tn n') = to_pitch_abs c (tn n) /\ tdur n' = tdur n /\ tamp n' = tamp n.
Proof.
  unfold correct_first. intros H Ha.
  destruct (pkind (tn n)) eqn:K;
    try (injection H as <-; repeat split; reflexivity);
    (destruct (cand_len c _) as [nb|] eqn:E; [|discriminate]; cbn [obind] in H;
     destruct (nb =? 0) eqn:E0; [discriminate|]; injection H as <-; cbn [tn tdur tamp]; repeat split;
     apply fold_note_fixed; [rewrite K; exact E | lia | intros Hk; apply Ha; congruence]).
Qed.

(* the optimiser's own pitch formula (get_pitch_solution) is the rendered pitch of the corrected note *)
Lemma value_to_scale_eq v sp : zlen sp <> 0 -> value_to_scale v sp = Some (znth sp (v mod zlen sp) + 12 * (v / zlen sp)).
Proof. intros H. unfold value_to_scale. destruct (zlen sp =? 0) eqn:E; [lia|reflexivity]. Qed.

Lemma pitch_solution_sound c n d p : elem_ok c -> pmode n = None -> pacc n = None ->
  pitch_solution c n d = Some p -> to_pitch_abs c (moved n d) = Some (Some p).
Proof.
  intros He Hm Ha. unfold pitch_solution.
  destruct (cand_list c (pkind n)) as [cl|] eqn:E; [|discriminate]. cbn [obind].
  destruct (zlen cl =? 0) eqn:E0; [discriminate|]. intros H. assert (Hp : p = znth cl ((pval n + d) mod zlen cl) + 12 * ((pval n + d) / zlen cl) + 12 * poct n) by congruence. clear H.
  assert (N0 : zlen cl <> 0) by lia.
  assert (A1 : (pval n + d + zlen cl * poct n) mod zlen cl = (pval n + d) mod zlen cl)
    by (rewrite Z.mul_comm; apply Z.mod_add; exact N0).
  assert (A2 : (pval n + d + zlen cl * poct n) / zlen cl = (pval n + d) / zlen cl + poct n)
    by (rewrite Z.mul_comm; apply Z.div_add; exact N0).
  unfold to_pitch_abs. cbn [moved pkind].
  assert (RC : real_chord (moved n d) c = c) by (unfold real_chord; cbn [moved pmode]; rewrite Hm; reflexivity).
  destruct (pkind n) eqn:K; cbn [cand_list] in E; try discriminate.
  - unfold pitch_basic. cbn [moved pkind pacc pval poct]. rewrite K, Ha, RC. rewrite E. cbn [obind option_map].
    assert (L7 : zlen cl = 7) by (unfold zlen; rewrite (chord_scale_length _ _ E); reflexivity).
    rewrite L7 in *. rewrite value_to_scale_eq by lia. rewrite L7. cbn [option_map]. do 2 f_equal. rewrite A1, A2. lia.
  - unfold pitch_basic. cbn [moved pkind pacc pval poct]. rewrite K, RC.
    destruct (chord_scale c) as [sp|]; [|discriminate]. cbn [obind] in E |- *. injection E as <-.
    assert (L12 : zlen (range12 (znth sp 0)) = 12) by reflexivity. rewrite L12 in *.
    rewrite value_to_scale_eq by (rewrite L12; lia). rewrite L12. cbn [option_map]. do 2 f_equal. rewrite A1, A2. lia.
  - rewrite E. cbn [obind moved pval poct]. rewrite value_to_scale_eq by exact N0. cbn [option_map]. do 2 f_equal. rewrite A1, A2. lia.
  - rewrite E. cbn [obind moved pval poct]. rewrite value_to_scale_eq by exact N0. cbn [option_map]. do 2 f_equal. rewrite A1, A2. lia.
  - unfold pitch_basic. cbn [moved pkind pacc pval poct]. rewrite K, RC. injection E as <-.
    assert (L12 : zlen (range12 0) = 12) by reflexivity. rewrite L12 in *.
    rewrite (chord_scale_spec c He). cbn [obind].
    rewrite value_to_scale_eq by (rewrite L12; lia). rewrite L12. cbn [option_map]. do 2 f_equal. rewrite A1, A2. lia.
Qed.

(* chord tones remain chord tones: the corrected c-note (b-note) sounds a tone of the chord (of the voicing), octaves apart *)
Lemma znth_in l i : 0 <= i < zlen l -> In (znth l i) l.
Proof. intros H. unfold znth. apply nth_In. unfold zlen in H. lia. Qed.

Lemma chord_tone_stays c n d nb p : pkind n = KC -> cand_len c KC = Some nb -> nb <> 0 ->
  to_pitch_abs c (fold_note nb n d) = Some (Some p) ->
  exists cp t q, chord_pitches c = Some cp /\ In t cp /\ p = t + 12 * q.
Proof.
  intros K Hc Hn. unfold to_pitch_abs. cbn [fold_note pkind]. rewrite K. cbn [cand_len] in Hc.
  destruct (chord_pitches c) as [cp|]; [|discriminate]. cbn [option_map obind] in *.
  assert (nb = zlen cp) by congruence. subst nb. rewrite value_to_scale_eq by exact Hn. cbn [option_map]. intros H.
  exists cp. eexists. eexists. split; [reflexivity|]. split; [|injection H as <-; reflexivity].
  apply znth_in. apply Z.mod_pos_bound. unfold zlen in *. lia.
Qed.

Lemma voicing_tone_stays c n d nb p : pkind n = KB -> cand_len c KB = Some nb -> nb <> 0 ->
  to_pitch_abs c (fold_note nb n d) = Some (Some p) ->
  exists cp t q, chord_extension_pitches c = Some cp /\ In t cp /\ p = t + 12 * q.
Proof.
  intros K Hc Hn. unfold to_pitch_abs. cbn [fold_note pkind]. rewrite K. cbn [cand_len] in Hc.
  destruct (chord_extension_pitches c) as [cp|]; [|discriminate]. cbn [option_map obind] in *.
  assert (nb = zlen cp) by congruence. subst nb. rewrite value_to_scale_eq by exact Hn. cbn [option_map]. intros H.
  exists cp. eexists. eexists. split; [reflexivity|]. split; [|injection H as <-; reflexivity].
  apply znth_in. apply Z.mod_pos_bound. unfold zlen in *. lia.
Qed.

(* ================= get_score only re-voices ================= *)
(* everything of a note but its value and octave *)
Definition nshape (n : tnote) := (pkind (tn n), pdir (tn n), pmode (tn n), pacc (tn n), tdur n, tamp n).

Lemma correct_first_shape c n d n' : correct_first c n d = Some n' -> nshape n' = nshape n.
Proof.
  unfold correct_first, nshape. intros H.
  destruct (pkind (tn n)) eqn:K;
    try (injection H as <-; rewrite K; reflexivity);
    (destruct (cand_len c _) as [nb|]; [|discriminate]; cbn [obind] in H;
     destruct (nb =? 0); [discriminate|]; injection H as <-; cbn [tn tdur tamp fold_note pkind pdir pmode pacc]; rewrite K; reflexivity).
Qed.

Definition part_revoiced (p p' : string * list tnote) : Prop :=
  fst p' = fst p /\ map nshape (snd p') = map nshape (snd p) /\ tl (snd p') = tl (snd p).

Lemma correct_parts_shape c : forall ps ds ps', correct_parts c ps ds = Some ps' -> Forall2 part_revoiced ps ps'.
Proof.
  induction ps as [|[k m] r IH]; intros ds ps' H; destruct ds as [|d dr]; cbn [correct_parts] in H; try discriminate.
  - injection H as <-. constructor.
  - destruct (correct_part c m d) as [m'|] eqn:Em; [|discriminate]. cbn [obind] in H.
    destruct (correct_parts c r dr) as [r'|] eqn:Er; [|discriminate]. injection H as <-.
    constructor; [|exact (IH _ _ Er)].
    unfold correct_part in Em. destruct m as [|n t]; [discriminate|].
    destruct (correct_first c n d) as [n'|] eqn:En; [|discriminate]. injection Em as <-.
    unfold part_revoiced. cbn [fst snd map tl]. rewrite (correct_first_shape _ _ _ _ En). repeat split; reflexivity.
Qed.

Definition chord_revoiced (c c' : rchord) : Prop := rc c' = rc c /\ Forall2 part_revoiced (rparts c) (rparts c').

Lemma vl_apply_shape : forall s dss s', vl_apply s dss = Some s' -> Forall2 chord_revoiced s s'.
Proof.
  induction s as [|c r IH]; intros dss s' H; destruct dss as [|ds dr]; cbn [vl_apply] in H; try discriminate.
  - injection H as <-. constructor.
  - unfold vl_apply_chord in H. destruct (correct_parts (rc c) (rparts c) ds) as [ps|] eqn:Ep; [|discriminate]. cbn [obind] in H.
    destruct (vl_apply r dr) as [r'|] eqn:Er; [|discriminate]. injection H as <-.
    constructor; [|exact (IH _ _ Er)]. split; [reflexivity|]. cbn [rparts]. exact (correct_parts_shape _ _ _ _ Ep).
Qed.

(* durations are untouched, part by part *)
Lemma part_revoiced_dur p p' : part_revoiced p p' -> map tdur (snd p') = map tdur (snd p).
Proof.
  intros (_ & H & _). revert H. generalize (snd p') (snd p). induction l as [|a l IH]; intros [|b l2] H; try discriminate; [reflexivity|].
  cbn [map] in *. assert (H1 : nshape a = nshape b) by congruence. assert (H2 : map nshape l = map nshape l2) by congruence.
  f_equal; [unfold nshape in H1; congruence|apply IH; exact H2].
Qed.

(* ================= octave normalisation ================= *)
Lemma vl_normalise_bass fuel keep : forall c c', vl_normalise fuel keep c = Some c' ->
  exists b, bass_pitch (rc c') = Some b /\ -6 < b <= 6.
Proof.
  induction fuel as [|f IH]; intros c c' H; [discriminate|]. cbn [vl_normalise] in H.
  destruct (bass_pitch (rc c)) as [bass|] eqn:E; [|discriminate]. cbn [obind] in H.
  destruct (6 <? bass) eqn:E1.
  - destruct (compensate_fixed keep 1 (rparts c)); [|discriminate]. exact (IH _ _ H).
  - destruct (bass <=? -6) eqn:E2.
    + destruct (compensate_fixed keep (-1) (rparts c)); [|discriminate]. exact (IH _ _ H).
    + injection H as <-. exists bass. split; [exact E|lia].
Qed.

(* the chord only changes octave *)
Lemma vl_normalise_chord fuel keep : forall c c', vl_normalise fuel keep c = Some c' -> exists k, rc c' = chord_o (rc c) k.
Proof.
  induction fuel as [|f IH]; intros c c' H; [discriminate|]. cbn [vl_normalise] in H.
  destruct (bass_pitch (rc c)) as [bass|]; [|discriminate]. cbn [obind] in H.
  destruct (6 <? bass).
  - destruct (compensate_fixed keep 1 (rparts c)) as [ps|]; [|discriminate]. cbn [obind] in H.
    destruct (IH _ _ H) as (k & Hk). exists (-1 + k). rewrite Hk. unfold chord_o. cbn [celem cext cton coct rc]. f_equal. lia.
  - destruct (bass <=? -6).
    + destruct (compensate_fixed keep (-1) (rparts c)) as [ps|]; [|discriminate]. cbn [obind] in H.
      destruct (IH _ _ H) as (k & Hk). exists (1 + k). rewrite Hk. unfold chord_o. cbn [celem cext cton coct rc]. f_equal. lia.
    + injection H as <-. exists 0. unfold chord_o. destruct (rc c) as [e x t o]. cbn. f_equal. lia.
Qed.

(* the fixed voices whose octave must not change are moved back, note by note *)
Lemma plook_set_same nm f : forall ps ps', set_part nm f ps = Some ps' -> plook nm ps' = option_map f (plook nm ps).
Proof.
  induction ps as [|[k v] r IH]; intros ps' H; cbn [set_part] in H; [discriminate|].
  destruct (String.eqb nm k) eqn:E.
  - injection H as <-. cbn [plook]. rewrite E. reflexivity.
  - destruct (set_part nm f r) as [r'|]; [|discriminate]. injection H as <-. cbn [plook]. rewrite E. apply IH. reflexivity.
Qed.

Lemma plook_set_other nm nm' f : nm' <> nm -> forall ps ps', set_part nm f ps = Some ps' -> plook nm' ps' = plook nm' ps.
Proof.
  intros Hn. induction ps as [|[k v] r IH]; intros ps' H; cbn [set_part] in H; [discriminate|].
  destruct (String.eqb nm k) eqn:E.
  - injection H as <-. cbn [plook]. apply String.eqb_eq in E. subst k.
    destruct (String.eqb nm' nm) eqn:E2; [apply String.eqb_eq in E2; contradiction|reflexivity].
  - destruct (set_part nm f r) as [r'|]; [|discriminate]. injection H as <-. cbn [plook].
    destruct (String.eqb nm' k); [reflexivity|]. apply IH. reflexivity.
Qed.

Lemma compensate_fixed_in k : forall keep ps ps' nm, compensate_fixed keep k ps = Some ps' -> NoDup keep -> In nm keep ->
  plook nm ps' = option_map (fun m => compensate m k) (plook nm ps).
Proof.
  induction keep as [|a r IH]; intros ps ps' nm H Hd Hi; [destruct Hi|]. cbn [compensate_fixed] in H.
  destruct (set_part a (fun m => compensate m k) ps) as [ps1|] eqn:E; [|discriminate]. cbn [obind] in H.
  inversion Hd as [|? ? Hna Hd']; subst.
  destruct Hi as [<-|Hi].
  - (* a itself: the later names are different *)
    assert (G : forall keep2 q q', compensate_fixed keep2 k q = Some q' -> ~ In a keep2 -> plook a q' = plook a q).
    { induction keep2 as [|b r2 IH2]; intros q q' Hq Hn; cbn [compensate_fixed] in Hq; [congruence|].
      destruct (set_part b _ q) as [q1|] eqn:Eq; [|discriminate]. cbn [obind] in Hq.
      rewrite (IH2 _ _ Hq) by (intros X; apply Hn; right; exact X).
      eapply plook_set_other; [|exact Eq]. intros ->; apply Hn; left; reflexivity. }
    rewrite (G _ _ _ H Hna). exact (plook_set_same _ _ _ _ E).
  - rewrite (IH _ _ _ H Hd' Hi). f_equal. eapply plook_set_other; [|exact E]. intros ->; contradiction.
Qed.

Lemma note_o_twice n a b : note_o (note_o n a) b = note_o n (a + b).
Proof. unfold note_o. destruct (pkind n) eqn:K, (pdir n) eqn:D; cbn [pkind pdir pval poct pmode pacc]; rewrite ?K, ?D; try reflexivity; f_equal; lia. Qed.

Lemma compensate_twice m a b : compensate (compensate m a) b = compensate m (a + b).
Proof.
  unfold compensate. rewrite map_map. apply map_ext. intros n.
  assert (K : pkind (note_o (tn n) a) = pkind (tn n)) by (destruct (tn n) as [k0 d0 v0 o0 md0 ac0]; unfold note_o; cbn [pkind pdir]; destruct k0, d0; reflexivity).
  destruct (kind_eqb (pkind (tn n)) KA) eqn:E; [rewrite E; reflexivity|].
  cbn [tn tdur tamp]. rewrite K, E. rewrite note_o_twice. reflexivity.
Qed.

Lemma compensate_zero m : compensate m 0 = m.
Proof.
  unfold compensate. rewrite <- (map_id m) at 2. apply map_ext. intros [n d a].
  cbn [tn tdur tamp]. destruct (kind_eqb (pkind n) KA); [reflexivity|]. unfold id. f_equal.
  unfold note_o. destruct n as [k dr v o md ac]. cbn [pkind pdir pval poct pmode pacc]. destruct k, dr; try reflexivity; f_equal; lia.
Qed.

Theorem vl_normalise_fixed fuel keep nm : NoDup keep -> In nm keep -> forall c c' m,
  vl_normalise fuel keep c = Some c' -> plook nm (rparts c) = Some m ->
  exists k, rc c' = chord_o (rc c) k /\ plook nm (rparts c') = Some (compensate m (- k)).
Proof.
  intros Hd Hi. induction fuel as [|f IH]; intros c c' m H Hm; [discriminate|]. cbn [vl_normalise] in H.
  destruct (bass_pitch (rc c)) as [bass|]; [|discriminate]. cbn [obind] in H.
  destruct (6 <? bass).
  - destruct (compensate_fixed keep 1 (rparts c)) as [ps|] eqn:E; [|discriminate]. cbn [obind] in H.
    pose proof (compensate_fixed_in 1 _ _ _ nm E Hd Hi) as P. rewrite Hm in P. cbn [option_map] in P.
    destruct (IH _ _ _ H P) as (k & Hk & Hp). exists (-1 + k). split.
    + rewrite Hk. unfold chord_o. cbn [celem cext cton coct rc]. f_equal. lia.
    + rewrite Hp, compensate_twice. do 2 f_equal. lia.
  - destruct (bass <=? -6).
    + destruct (compensate_fixed keep (-1) (rparts c)) as [ps|] eqn:E; [|discriminate]. cbn [obind] in H.
      pose proof (compensate_fixed_in (-1) _ _ _ nm E Hd Hi) as P. rewrite Hm in P. cbn [option_map] in P.
      destruct (IH _ _ _ H P) as (k & Hk & Hp). exists (1 + k). split.
      * rewrite Hk. unfold chord_o. cbn [celem cext cton coct rc]. f_equal. lia.
      * rewrite Hp, compensate_twice. do 2 f_equal. lia.
    + injection H as <-. exists 0. split.
      * unfold chord_o. destruct (rc c) as [e x t o]. cbn. f_equal. lia.
      * rewrite Hm. cbn [Z.opp]. rewrite compensate_zero. reflexivity.
Qed.

(* ... and so keeps every pitch: chord down k octaves, chord-relative notes up k octaves, absolute notes as they are *)
Lemma compensated_note_pitch c k n : elem_ok c -> pdir (tn n) = Abs -> forall r, to_pitch_abs c (tn n) = Some r ->
  to_pitch_abs (chord_o c k) (tn (if kind_eqb (pkind (tn n)) KA then n else mkTN (note_o (tn n) (- k)) (tdur n) (tamp n))) = Some r.
Proof.
  intros He D r H. destruct (pkind (tn n)) eqn:K; cbn [kind_eqb tn].
  1-4: destruct r as [p|];
    [apply compensated_pitch; [exact D|tauto|exact H]
    |exfalso; revert H; unfold to_pitch_abs; rewrite K;
     try (destruct (pitch_basic c (tn n)); cbn; congruence);
     try (destruct (chord_pitches c); cbn; [destruct (value_to_scale _ _); cbn; congruence|congruence]);
     (destruct (chord_extension_pitches c); cbn; [destruct (value_to_scale _ _); cbn; congruence|congruence])].
  - rewrite absolute_untouched by assumption. exact H.
  - unfold note_o. rewrite K. revert H. unfold to_pitch_abs. rewrite K. tauto.
  - unfold note_o. rewrite K, D. revert H. unfold to_pitch_abs. cbn [pkind]. rewrite K. tauto.
  - unfold note_o. rewrite K. revert H. unfold to_pitch_abs. rewrite K. tauto.
  - unfold note_o. rewrite K. revert H. unfold to_pitch_abs. rewrite K. tauto.
Qed.

(* normalisation always returns: one octave per step towards the range *)
Lemma bass_pitch_o c k b : bass_pitch c = Some b -> bass_pitch (chord_o c k) = Some (b + 12 * k).
Proof.
  unfold bass_pitch. destruct (chord_extension_pitches c) as [[|x r]|] eqn:E; try discriminate. cbn [obind]. intros H.
  destruct (chord_o_bass c k x r E) as (r' & ->). cbn [obind]. congruence.
Qed.

Lemma compensate_fixed_some k : forall keep ps, (forall nm, In nm keep -> plook nm ps <> None) -> exists ps', compensate_fixed keep k ps = Some ps'.
Proof.
  assert (S1 : forall nm f ps, plook nm ps <> None -> exists ps', set_part nm f ps = Some ps').
  { intros nm f. induction ps as [|[a v] r IH]; intros H; cbn [plook set_part] in *; [congruence|].
    destruct (String.eqb nm a); [eexists; reflexivity|]. destruct (IH H) as (r' & ->). eexists; reflexivity. }
  induction keep as [|a r IH]; intros ps H; cbn [compensate_fixed]; [eexists; reflexivity|].
  destruct (S1 a (fun m => compensate m k) ps (H a (or_introl eq_refl))) as (ps1 & E). rewrite E. cbn [obind].
  apply IH. intros nm Hn. destruct (String.eqb nm a) eqn:Ea.
  - apply String.eqb_eq in Ea. subst nm. rewrite (plook_set_same _ _ _ _ E). specialize (H a (or_introl eq_refl)).
    destruct (plook a ps); [discriminate|congruence].
  - assert (X : plook nm ps1 = plook nm ps).
    { eapply plook_set_other; [|exact E]. intros ->. rewrite String.eqb_refl in Ea. discriminate. }
    rewrite X. apply H. right. exact Hn.
Qed.

Theorem vl_normalise_terminates keep : NoDup keep -> forall fuel c b,
  (forall nm, In nm keep -> plook nm (rparts c) <> None) -> bass_pitch (rc c) = Some b ->
  1 <= Z.of_nat fuel -> b - 6 <= 12 * (Z.of_nat fuel - 1) -> -6 - b < 12 * (Z.of_nat fuel - 1) ->
  exists c', vl_normalise fuel keep c = Some c'.
Proof.
  intros Hd. induction fuel as [|f IH]; intros c b Hp Hb H1 H2 H3; [cbn in H1; lia|]. cbn [vl_normalise]. rewrite Hb. cbn [obind].
  rewrite Nat2Z.inj_succ in *.
  assert (Keep : forall k ps, compensate_fixed keep k (rparts c) = Some ps -> forall nm, In nm keep -> plook nm ps <> None).
  { intros k ps E nm Hn. rewrite (compensate_fixed_in k _ _ _ nm E Hd Hn). specialize (Hp nm Hn). destruct (plook nm (rparts c)); [discriminate|congruence]. }
  destruct (6 <? b) eqn:E1.
  - destruct (compensate_fixed_some 1 keep (rparts c) Hp) as (ps & E). rewrite E. cbn [obind].
    apply (IH (mkRC (chord_o (rc c) (-1)) ps) (b + 12 * -1)); cbn [rc rparts]; [exact (Keep _ _ E)|apply bass_pitch_o; exact Hb| | |]; lia.
  - destruct (b <=? -6) eqn:E2; [|eexists; reflexivity].
    destruct (compensate_fixed_some (-1) keep (rparts c) Hp) as (ps & E). rewrite E. cbn [obind].
    apply (IH (mkRC (chord_o (rc c) 1) ps) (b + 12 * 1)); cbn [rc rparts]; [exact (Keep _ _ E)|apply bass_pitch_o; exact Hb| | |]; lia.
Qed.

(* ================= counterpoint ================= *)
Lemma cp_note_shape n h n' : cp_note n h = Some n' ->
  tdur n' = tdur n /\ tamp n' = tamp n /\
  (is_pitched_note n = false -> n' = n) /\
  (is_pitched_note n = true -> exists x, h = Some x /\ pkind (tn n') = KS /\ pdir (tn n') = Abs /\ 0 <= pval (tn n') < 7 /\
                                          pval (tn n') + 7 * poct (tn n') = x).
Proof.
  unfold cp_note. destruct (is_pitched_note n) eqn:P.
  - destruct h as [x|]; [|discriminate]. intros H. injection H as <-. cbn [tn tdur tamp pkind pdir pval poct].
    repeat split; try congruence. intros _. exists x. repeat split; lia.
  - intros H. injection H as <-. repeat split; congruence.
Qed.

Lemma cp_convert_rhythm : forall v hs v', cp_convert v hs = Some v' -> map tdur v' = map tdur v /\ map tamp v' = map tamp v.
Proof.
  induction v as [|n r IH]; intros hs v' H; cbn [cp_convert] in H.
  - injection H as <-. split; reflexivity.
  - destruct hs as [|h hr]; [discriminate|]. destruct (cp_note n h) as [n'|] eqn:En; [|discriminate]. cbn [obind] in H.
    destruct (cp_convert r hr) as [r'|] eqn:Er; [|discriminate]. injection H as <-.
    destruct (cp_note_shape _ _ _ En) as (D & A & _). destruct (IH _ _ Er) as (D2 & A2). cbn [map]. split; congruence.
Qed.

(* rests and continuations stay; the notes become the scale notes of the chosen heights *)
Lemma cp_convert_notes : forall v hs v', cp_convert v hs = Some v' ->
  Forall2 (fun n n' => (is_pitched_note n = false -> n' = n) /\
                       (is_pitched_note n = true -> pkind (tn n') = KS /\ pdir (tn n') = Abs /\ 0 <= pval (tn n') < 7)) v v'.
Proof.
  induction v as [|n r IH]; intros hs v' H; cbn [cp_convert] in H.
  - injection H as <-. constructor.
  - destruct hs as [|h hr]; [discriminate|]. destruct (cp_note n h) as [n'|] eqn:En; [|discriminate]. cbn [obind] in H.
    destruct (cp_convert r hr) as [r'|] eqn:Er; [|discriminate]. injection H as <-.
    constructor; [|exact (IH _ _ Er)]. destruct (cp_note_shape _ _ _ En) as (_ & _ & R & N). split; [exact R|].
    intros P. destruct (N P) as (x & _ & K & D & V & _). tauto.
Qed.

(* an accepted run moves every note by at most four scale steps *)
Lemma cp_best_small subj li ln note delta : cp_best subj li ln note delta = true -> -4 <= delta <= 4.
Proof.
  unfold cp_best. intros H. apply andb_prop in H. destruct H as [H _]. unfold cp_deltas in H. cbn [existsb] in H.
  repeat (apply orb_prop in H; destruct H as [H|H]; [lia|]). discriminate.
Qed.

Lemma cp_run_small : forall arr cols chosen li ln, cp_run arr cols chosen li ln = true ->
  Forall2 (fun a h => match a, h with Some n, Some x => -4 <= x - n <= 4 | None, None => True | _, _ => False end) arr chosen.
Proof.
  induction arr as [|a ar IH]; intros cols chosen li ln H; cbn [cp_run] in H.
  - destruct chosen; [constructor|discriminate].
  - destruct a as [n|].
    + destruct cols as [|col cr]; [discriminate|]. destruct chosen as [|[h|] hr]; try discriminate.
      apply andb_prop in H. destruct H as [B R]. constructor; [exact (cp_best_small _ _ _ _ _ B)|exact (IH _ _ _ _ R)].
    + destruct cols as [|col cr]; [discriminate|]. destruct chosen as [|[h|] hr]; try discriminate.
      constructor; [exact I|exact (IH _ _ _ _ H)].
Qed.

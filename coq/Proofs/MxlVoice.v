(* C08: every exported voice lasts exactly as long as the score - chord by chord, whatever the part does (absent, shorter than
   its chord, rests, ties): the notes of later chords start where the renderer starts them. *)
From ML Require Import Model.Types gen.Tables Model.Pitch Model.Rel Model.Render Model.Slice Model.Mxl.
From ML Require Import Proofs.RenderProofs Proofs.SliceProofs.
From Coq Require Import Lia ZifyBool.
Open Scope Z_scope.
Open Scope list_scope.

Definition mel_total (l : list mel) : Z := fold_left (fun a e => a + snd (fst e)) l 0.

Lemma mel_total_snoc l (e : mel) : mel_total (l ++ [e]) = mel_total l + snd (fst e).
Proof. unfold mel_total. rewrite fold_left_app. cbn [fold_left]. reflexivity. Qed.

(* notes that write something: everything but drum and pattern notes *)
Definition writable (m : list tnote) : Prop := Forall (fun n => pkind (tn n) <> KD /\ pkind (tn n) <> KX) m.

Lemma note_step_total c n s out s' out' : pkind (tn n) <> KD -> pkind (tn n) <> KX ->
  note_step c (Some (s, out)) n = Some (s', out') -> mel_total out' = mel_total out + tdur n.
Proof.
  intros Hd Hx. unfold note_step. cbn [obind].
  destruct (pkind (tn n)) eqn:K; try congruence.
  1-5: (destruct (match pdir (tn n), v_pitch s with Abs, _ => Some 0 | _, Some l => Some l | _, None => None end) as [last|]; [|discriminate]; cbn [obind];
        destruct (pitch_full c (tn n) last) as [[p|]|]; try discriminate; cbn [obind];
        destruct (spelled_midi c p) as [m|]; [|discriminate]; cbn [obind]; intros H; injection H as _ <-; apply mel_total_snoc).
  - intros H. injection H as _ <-. apply mel_total_snoc.
  - destruct (v_midi s) as [m|].
    + destruct (if v_old s then true else v_sil s); intros H; injection H as _ <-; apply mel_total_snoc.
    + intros H. injection H as _ <-. apply mel_total_snoc.
Qed.

Lemma part_total c : forall part s out s' out', writable part ->
  fold_left (note_step c) part (Some (s, out)) = Some (s', out') -> mel_total out' = mel_total out + part_dur part.
Proof.
  induction part as [|n r IH]; intros s out s' out' Hw H; cbn [fold_left] in H.
  - injection H as _ <-. rewrite part_dur_nil. lia.
  - inversion Hw as [|? ? [Hd Hx] Hr]; subst.
    destruct (note_step c (Some (s, out)) n) as [[s1 out1]|] eqn:E.
    + rewrite (IH _ _ _ _ Hr H), (note_step_total _ _ _ _ _ _ Hd Hx E), part_dur_cons. lia.
    + exfalso. clear - H. induction r as [|x r IHr]; cbn [fold_left] in H; [discriminate|]. apply IHr. exact H.
Qed.

(* a part is never longer than its chord *)
Lemma fold_max_ge (ps : list (string * list tnote)) : forall a, a <= fold_left (fun acc q => Z.max acc (part_dur (snd q))) ps a /\
  Forall (fun p => part_dur (snd p) <= fold_left (fun acc q => Z.max acc (part_dur (snd q))) ps a) ps.
Proof.
  induction ps as [|p r IH]; intros a; cbn [fold_left]; [split; [lia|constructor]|].
  destruct (IH (Z.max a (part_dur (snd p)))) as [G F]. split; [lia|]. constructor; [lia|exact F].
Qed.

Lemma part_le_chord c track part : plook track (rparts c) = Some part -> part_dur part <= rchord_dur c.
Proof.
  unfold rchord_dur. destruct (rparts c) as [|p r] eqn:E; [discriminate|]. intros H.
  assert (Hin : In part (map snd (p :: r))).
  { clear - H. induction (p :: r) as [|[k v] l IH]; cbn [plook] in H; [discriminate|].
    destruct (String.eqb track k); [injection H as <-; left; reflexivity|right; exact (IH H)]. }
  destruct (fold_max_ge r (part_dur (snd p))) as [G F]. cbn [map] in Hin. destruct Hin as [<-|Hin]; [exact G|].
  apply in_map_iff in Hin. destruct Hin as (q & <- & Hq). rewrite Forall_forall in F. exact (F q Hq).
Qed.

Definition writable_score (s : rscore) (track : string) : Prop :=
  Forall (fun c => match plook track (rparts c) with Some part => writable part | None => True end) s.

Lemma voice_total track : forall s st out st' out', writable_score s track ->
  fold_left (chord_step track) s (Some (st, out)) = Some (st', out') -> mel_total out' = mel_total out + score_dur s.
Proof.
  induction s as [|c r IH]; intros st out st' out' Hw H; cbn [fold_left] in H.
  - injection H as _ <-. unfold score_dur. cbn. lia.
  - inversion Hw as [|? ? Hc Hr]; subst. rewrite score_dur_cons.
    destruct (chord_step track (Some (st, out)) c) as [[s1 out1]|] eqn:E.
    + rewrite (IH _ _ _ _ Hr H). enough (mel_total out1 = mel_total out + rchord_dur c) by lia.
      unfold chord_step in E. cbn [obind] in E. destruct (plook track (rparts c)) as [part|] eqn:P.
      * destruct (fold_left (note_step (rc c)) part (Some (mkVS (v_midi st) (v_pitch st) false (v_sil st), out))) as [[s2 out2]|] eqn:F; [|discriminate].
        cbn [obind] in E. pose proof (part_total _ _ _ _ _ _ Hc F) as T. pose proof (part_le_chord _ _ _ P) as L.
        destruct (part_dur part <? rchord_dur c) eqn:C; injection E as _ <-; [rewrite mel_total_snoc; cbn [fst snd]; lia|lia].
      * injection E as _ <-. rewrite mel_total_snoc. cbn [fst snd]. lia.
    + exfalso. clear - H. induction r as [|x r IHr]; cbn [fold_left] in H; [discriminate|]. apply IHr. exact H.
Qed.

Theorem voice_lasts_the_score s track out : writable_score s track -> voice_of s track = Some out -> mel_total out = score_dur s.
Proof.
  unfold voice_of. intros Hw H. destruct (fold_left (chord_step track) s (Some (mkVS None None true true, []))) as [[st' out']|] eqn:E; [|discriminate].
  injection H as <-. rewrite (voice_total track s _ _ _ _ Hw E). reflexivity.
Qed.

(* every prefix of chords too: the elements written for chord k+1 start at the sum of the first k chord durations *)
Theorem voice_prefix_total s1 track st out : writable_score s1 track ->
  fold_left (chord_step track) s1 (Some (mkVS None None true true, [])) = Some (st, out) -> mel_total out = score_dur s1.
Proof. intros Hw H. rewrite (voice_total track s1 _ _ _ _ Hw H). reflexivity. Qed.

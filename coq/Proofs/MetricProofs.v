From ML Require Import Model.Types Model.Metric.
From Coq Require Import Lia ZifyBool.
Open Scope Z_scope.
Open Scope list_scope.
Ltac Zify.zify_post_hook ::= Z.to_euclidean_division_equations.

(* ================= Euclidean rhythms ================= *)
(* an additive weight on patterns: the number of steps, or the number of pulses *)
Record weight := mkW { w :> list Z -> Z; w_app : forall a b, w (a ++ b) = w a + w b; w_nil : w [] = 0 }.

Definition w_len : weight.
Proof.
  refine (mkW (fun l => Z.of_nat (length l)) _ _); [intros; rewrite app_length; lia|reflexivity].
Defined.

Definition sumz (l : list Z) : Z := fold_right Z.add 0 l.
Lemma sumz_app a b : sumz (a ++ b) = sumz a + sumz b.
Proof. unfold sumz. induction a as [|x a IH]; cbn [app fold_right]; [reflexivity|]. rewrite IH. lia. Qed.
Definition w_sum : weight := mkW sumz sumz_app eq_refl.

Lemma w_repeat (W : weight) l k : W (repeat_list_z l k) = Z.of_nat k * W l.
Proof. induction k as [|k IH]; cbn [repeat_list_z]; [rewrite w_nil; lia|]. rewrite w_app, IH. lia. Qed.

Lemma bld2_cons (W : weight) c r rest : 0 <= c ->
  W (fst (bld2 ((c, r) :: rest))) = c * W (fst (bld2 rest)) + (if r =? 0 then 0 else W (snd (bld2 rest))) /\
  snd (bld2 ((c, r) :: rest)) = fst (bld2 rest).
Proof.
  intros Hc. cbn [bld2]. destruct (bld2 rest) as [b1 b2]. cbn [fst snd]. split; [|reflexivity].
  rewrite w_app, w_repeat, Z2Nat.id by exact Hc. destruct (r =? 0); [rewrite w_nil|]; reflexivity.
Qed.

(* the Euclid loop keeps  divisor * W(build(l-1)) + remainder * W(build(l-2))  constant *)
Lemma bj_levels_weight (W : weight) fuel : forall d r acc lv, 0 <= d -> 0 < r ->
  bj_levels fuel d r acc = Some lv ->
  W (fst (bld2 lv)) = d * W (fst (bld2 acc)) + r * W (snd (bld2 acc)).
Proof.
  induction fuel as [|f IH]; intros d r acc lv Hd Hr H; [discriminate|]. cbn [bj_levels] in H.
  assert (E : (r =? 0) = false) by lia. rewrite E in H.
  assert (Hc : 0 <= d / r) by (apply Z.div_pos; lia).
  pose proof (Z.mod_pos_bound d r Hr) as Hm. pose proof (Z.div_mod d r ltac:(lia)) as Hdm.
  destruct (bld2_cons W (d / r) r acc Hc) as [B1 B2]. rewrite E in B1.
  set (q := d / r) in *. set (m := d mod r) in *.
  destruct (m <=? 1) eqn:E1.
  - injection H as <-.
    destruct (bld2_cons W r m ((q, r) :: acc) ltac:(lia)) as [C1 C2].
    rewrite C1, B1, B2. clearbody q m. subst d.
    destruct (m =? 0) eqn:E0; [assert (m = 0) by lia|assert (m = 1) by lia]; subst m; ring.
  - rewrite (IH r m _ lv ltac:(lia) ltac:(lia) H), B1, B2. clearbody q m. subst d. ring.
Qed.

Lemma bj_levels_terminates fuel : forall d r acc, 0 <= d -> 0 < r -> r < Z.of_nat fuel ->
  exists lv, bj_levels fuel d r acc = Some lv.
Proof.
  induction fuel as [|f IH]; intros d r acc Hd Hr Hf; [lia|]. cbn [bj_levels].
  assert (E : (r =? 0) = false) by lia. rewrite E.
  pose proof (Z.mod_pos_bound d r Hr) as Hm.
  destruct (d mod r <=? 1) eqn:E1; [eexists; reflexivity|]. apply IH; lia.
Qed.

Lemma binary_bld2 lv : Forall (fun x => x = 0 \/ x = 1) (fst (bld2 lv)) /\ Forall (fun x => x = 0 \/ x = 1) (snd (bld2 lv)).
Proof.
  induction lv as [|[c r] lv [I1 I2]]; cbn [bld2].
  - split; repeat constructor; lia.
  - destruct (bld2 lv) as [b1 b2]. cbn [fst snd] in *. split; [|exact I1].
    apply Forall_app. split.
    + induction (Z.to_nat c) as [|k IHk]; cbn [repeat_list_z]; [constructor|apply Forall_app; split; assumption].
    + destruct (r =? 0); [constructor|exact I2].
Qed.

Lemma index_one_some l : Forall (fun x => x = 0 \/ x = 1) l -> 0 < sumz l -> exists i, index_one l = Some i.
Proof.
  induction 1 as [|x l Hx _ IH]; intros Hs; [cbn in Hs; lia|]. cbn [index_one].
  destruct (x =? 1) eqn:E; [eexists; reflexivity|].
  assert (x = 0) by lia. subst x. cbn [sumz fold_right] in Hs. destruct (IH ltac:(unfold sumz; lia)) as (i & Hi).
  rewrite Hi. eexists; reflexivity.
Qed.

Lemma index_one_head l i : index_one l = Some i -> exists r, skipn i l = 1 :: r.
Proof.
  revert i. induction l as [|x l IH]; intros i H; [discriminate|]. cbn [index_one] in H.
  destruct (x =? 1) eqn:E.
  - injection H as <-. exists l. cbn [skipn]. apply Z.eqb_eq in E. subst x. reflexivity.
  - destruct (index_one l) as [j|]; [|discriminate]. injection H as <-. cbn [skipn]. apply IH. reflexivity.
Qed.

Lemma rotate_weight (W : weight) i l : W (skipn i l ++ firstn i l) = W l.
Proof. rewrite w_app, Z.add_comm, <- w_app, firstn_skipn. reflexivity. Qed.

Lemma in_skipn {A} (x : A) i l : In x (skipn i l) -> In x l.
Proof. intros H. rewrite <- (firstn_skipn i l). apply in_or_app. right. exact H. Qed.
Lemma in_firstn {A} (x : A) i l : In x (firstn i l) -> In x l.
Proof. intros H. rewrite <- (firstn_skipn i l). apply in_or_app. left. exact H. Qed.

(* exactly [steps] steps, exactly [pulses] pulses, a pulse on the downbeat, only 0/1 entries *)
Theorem euclid_ok steps pulses : 1 <= pulses <= steps ->
  exists p, bjorklund steps pulses = Some p /\ Z.of_nat (length p) = steps /\ sumz p = pulses /\
            hd 0 p = 1 /\ Forall (fun x => x = 0 \/ x = 1) p.
Proof.
  intros H. unfold bjorklund. assert (E : (steps <? pulses) = false) by lia. rewrite E.
  destruct (bj_levels_terminates (Z.to_nat pulses + 2) (steps - pulses) pulses [] ltac:(lia) ltac:(lia) ltac:(lia)) as (lv & Hlv).
  rewrite Hlv. cbn [obind].
  pose proof (bj_levels_weight w_len (Z.to_nat pulses + 2) (steps - pulses) pulses [] lv ltac:(lia) ltac:(lia) Hlv) as HL.
  pose proof (bj_levels_weight w_sum (Z.to_nat pulses + 2) (steps - pulses) pulses [] lv ltac:(lia) ltac:(lia) Hlv) as HS.
  cbn [bld2 fst snd w w_len w_sum length sumz fold_right] in HL, HS.
  destruct (binary_bld2 lv) as [Hb _].
  destruct (index_one_some _ Hb ltac:(unfold sumz in *; lia)) as (i & Hi). rewrite Hi. cbn [obind].
  eexists. split; [reflexivity|]. repeat split.
  - pose proof (rotate_weight w_len i (fst (bld2 lv))) as R. cbn [w w_len] in R. rewrite R. lia.
  - pose proof (rotate_weight w_sum i (fst (bld2 lv))) as R. cbn [w w_sum] in R. rewrite R. unfold sumz in *. lia.
  - destruct (index_one_head _ _ Hi) as (r & Hr). rewrite Hr. reflexivity.
  - rewrite Forall_forall in Hb. apply Forall_app. split; apply Forall_forall; intros x Hx; apply Hb.
    + eapply in_skipn. exact Hx.
    + eapply in_firstn. exact Hx.
Qed.

(* ================= maximal evenness, bounded sweep ================= *)
Fixpoint positions_from (i : Z) (l : list Z) : list Z :=
  match l with [] => [] | x :: r => (if x =? 1 then [i] else []) ++ positions_from (i + 1) r end.

(* Clough-Douthett: for every k, the spans of k consecutive onsets take at most two consecutive sizes *)
Definition max_even (p : list Z) : bool :=
  let n := Z.of_nat (length p) in
  let ons := positions_from 0 p in
  let np := length ons in
  forallb (fun k =>
    let sizes := map (fun i => (nth ((i + k) mod np) ons 0 - nth i ons 0) mod n) (seq 0 np) in
    match sizes with
    | [] => true
    | s0 :: _ => let mn := fold_left Z.min sizes s0 in let mx := fold_left Z.max sizes s0 in mx - mn <=? 1
    end) (seq 1 (np - 1)).

Definition even_upto (bound : nat) : bool :=
  forallb (fun s => forallb (fun p =>
     match bjorklund (Z.of_nat s) (Z.of_nat p) with Some pat => max_even pat | None => false end)
     (seq 1 s)) (seq 1 bound).

Lemma even_sweep : even_upto 64 = true.
Proof. vm_compute. reflexivity. Qed.

Theorem euclid_even_bounded steps pulses : 1 <= pulses <= steps -> steps <= 64 ->
  exists p, bjorklund steps pulses = Some p /\ max_even p = true.
Proof.
  intros H Hb. pose proof even_sweep as SW. unfold even_upto in SW. rewrite forallb_forall in SW.
  specialize (SW (Z.to_nat steps) ltac:(apply in_seq; lia)). rewrite forallb_forall in SW.
  specialize (SW (Z.to_nat pulses) ltac:(apply in_seq; lia)). rewrite !Z2Nat.id in SW by lia.
  destruct (bjorklund steps pulses) as [p|]; [|discriminate]. exists p. split; [reflexivity|exact SW].
Qed.

(* ================= complement, reversal, circular shift ================= *)
Lemma complementary_involutive a : complementary (complementary a) = a.
Proof. unfold complementary. rewrite map_map. rewrite <- (map_id a) at 2. apply map_ext. intros; lia. Qed.

Lemma reversed_involutive a : reversed (reversed a) = a.
Proof. apply rev_involutive. Qed.

Lemma circular_shift_length a n : length (circular_shift a n) = length a.
Proof.
  unfold circular_shift. destruct (Z.of_nat (length a) =? 0); [reflexivity|].
  rewrite app_length, skipn_length, firstn_length. lia.
Qed.

Lemma circular_shift_back a n : circular_shift (circular_shift a n) (- n) = a.
Proof.
  unfold circular_shift at 1. rewrite circular_shift_length.
  destruct (Z.of_nat (length a) =? 0) eqn:E0.
  { unfold circular_shift. rewrite E0. reflexivity. }
  unfold circular_shift. rewrite E0.
  set (len := Z.of_nat (length a)) in *. assert (Hlen : 0 < len) by lia.
  set (k := Z.to_nat (Z.opp n mod len)). set (k' := Z.to_nat (Z.opp (- n) mod len)).
  pose proof (Z.mod_pos_bound (Z.opp n) len Hlen) as B1. pose proof (Z.mod_pos_bound (Z.opp (- n)) len Hlen) as B2.
  assert (Hk : (k <= length a)%nat) by (unfold k; lia).
  assert (HK : k = 0%nat /\ k' = 0%nat \/ (k' = length a - k)%nat /\ (0 < k)%nat).
  { unfold k, k'. destruct (Z.eq_dec (Z.opp n mod len) 0) as [Z0|NZ].
    - left. split; [lia|]. replace (Z.opp (- n)) with n by lia.
      assert (n mod len = 0) by (apply Z.mod_opp_l_z in Z0; [replace (- - n) with n in Z0 by lia; exact Z0|lia]). lia.
    - right. split; [|lia]. replace (Z.opp (- n)) with n by lia.
      assert (n mod len = len - Z.opp n mod len).
      { replace n with (- (- n)) at 1 by lia. rewrite Z.mod_opp_l_nz by (try lia; exact NZ). reflexivity. }
      lia. }
  destruct HK as [[K1 K2]|[K2 K1]].
  - rewrite K1, K2. cbn [skipn firstn]. rewrite !app_nil_r. reflexivity.
  - rewrite K2.
    assert (L1 : length (skipn k a) = (length a - k)%nat) by apply skipn_length.
    rewrite skipn_app, firstn_app, L1, Nat.sub_diag. cbn [skipn firstn].
    rewrite <- L1, skipn_all, firstn_all. cbn [app]. rewrite app_nil_r. apply firstn_skipn.
Qed.

(* ================= applying a grid to a melody ================= *)
Definition total_tatums (es : list (option Z * Z)) : Z := sumz (map snd es).

Fixpoint note_onsets (s : Z) (gs : list (bool * Z)) : list Z :=
  match gs with [] => [] | (b, k) :: r => (if b then [s] else []) ++ note_onsets (s + k) r end.

Lemma groups_total b cur l : sumz (map snd (groups_from b cur l)) = cur + Z.of_nat (length l).
Proof.
  revert b cur. induction l as [|x l IH]; intros b cur; cbn [groups_from].
  - cbn. lia.
  - destruct (x =? 0); [rewrite IH; cbn [length]; lia|].
    destruct (x =? 1); cbn [map snd sumz fold_right]; fold (sumz (map snd (groups_from true 1 l)));
      fold (sumz (map snd (groups_from false 1 l))); rewrite IH; cbn [length]; lia.
Qed.

(* the groups flagged as notes start exactly at the positions holding a 1 *)
Lemma groups_onsets b cur l s :
  note_onsets s (groups_from b cur l) = (if b then [s] else []) ++ positions_from (s + cur) l.
Proof.
  revert b cur s. induction l as [|x l IH]; intros b cur s; cbn [groups_from positions_from].
  - cbn [note_onsets]. reflexivity.
  - destruct (x =? 0) eqn:E0.
    + assert (E1 : (x =? 1) = false) by lia. rewrite E1. cbn [app]. rewrite IH. do 2 f_equal. lia.
    + destruct (x =? 1) eqn:E1; cbn [note_onsets]; rewrite IH; cbn [app]; repeat (f_equal; try lia).
Qed.

Lemma apply_groups_snd m idx f gs : map snd (apply_groups m idx f gs) = map snd gs.
Proof.
  revert idx. induction gs as [|[b k] gs IH]; intros idx; cbn [apply_groups map]; [reflexivity|].
  rewrite IH. f_equal. destruct ((idx =? 0) && negb f); [reflexivity|]. destruct b; reflexivity.
Qed.

(* the melody lasts exactly the number of tatums of the grid *)
Theorem apply_total a m es : apply_metric a m = Some es -> total_tatums es = Z.of_nat (length a).
Proof.
  unfold apply_metric, beat_durations. destruct (m <=? 0); [discriminate|].
  destruct a as [|x a]; [discriminate|]. intros [= <-]. unfold total_tatums.
  rewrite apply_groups_snd, groups_total. cbn [length]. lia.
Qed.

(* entries: which ones carry a note of the melody, and where they start *)
Fixpoint entry_onsets (s : Z) (es : list (option Z * Z)) : list Z :=
  match es with [] => [] | (o, k) :: r => (match o with Some _ => [s] | None => [] end) ++ entry_onsets (s + k) r end.

Lemma apply_groups_onsets m f gs : forall idx s, 0 <= idx ->
  (idx = 0 -> match gs with (b, _) :: _ => b = f | [] => True end) ->
  entry_onsets s (apply_groups m idx f gs) = note_onsets s gs.
Proof.
  induction gs as [|[b k] gs IH]; intros idx s Hi H; cbn [apply_groups note_onsets]; [reflexivity|].
  assert (R : entry_onsets (s + k) (apply_groups m (idx + 1) f gs) = note_onsets (s + k) gs) by (apply IH; [lia|intros; lia]).
  destruct (idx =? 0) eqn:E; cbn [andb].
  - specialize (H ltac:(lia)). subst b. destruct f; cbn [negb entry_onsets]; rewrite R; reflexivity.
  - destruct b; cbn [entry_onsets]; rewrite R; reflexivity.
Qed.

Lemma groups_from_head l : forall b cur, match groups_from b cur l with (b', _) :: _ => b' = b | [] => True end.
Proof.
  induction l as [|x l IH]; intros b cur; cbn [groups_from]; [reflexivity|].
  destruct (x =? 0); [apply IH|]. destruct (x =? 1); reflexivity.
Qed.

(* the notes of the melody are placed exactly on the pulses of the grid *)
Theorem apply_onsets a m es : apply_metric a m = Some es -> entry_onsets 0 es = positions_from 0 a.
Proof.
  unfold apply_metric, beat_durations. destruct (m <=? 0); [discriminate|].
  destruct a as [|x a]; [discriminate|]. intros [= <-].
  rewrite apply_groups_onsets.
  - rewrite groups_onsets. cbn [positions_from]. reflexivity.
  - lia.
  - intros _. apply groups_from_head.
Qed.

(* the i-th produced entry, when it is a note, is the melody's note i mod m: notes are taken in order, cyclically *)
Lemma apply_groups_sources m f gs : forall idx j o k,
  nth_error (apply_groups m idx f gs) j = Some (Some o, k) -> o = (idx + Z.of_nat j) mod m.
Proof.
  induction gs as [|[b k0] gs IH]; intros idx j o k H; [destruct j; discriminate|].
  destruct j as [|j]; cbn [apply_groups nth_error] in H.
  - destruct ((idx =? 0) && negb f); [discriminate|]. destruct b; [|discriminate]. injection H as <- _. f_equal. lia.
  - apply IH in H. rewrite H. f_equal. lia.
Qed.

Theorem apply_sources a m es j o k : apply_metric a m = Some es ->
  nth_error es j = Some (Some o, k) -> o = Z.of_nat j mod m.
Proof.
  unfold apply_metric, beat_durations. destruct (m <=? 0); [discriminate|].
  destruct a as [|x a]; [discriminate|]. intros [= <-] H. apply apply_groups_sources in H. exact H.
Qed.

From ML Require Import Model.Types gen.Tables Model.Pitch Model.Rel Model.Render Model.Mxl.
From Coq Require Import Lia ZifyBool.
Open Scope Z_scope.
Open Scope list_scope.
Ltac Zify.zify_post_hook ::= Z.to_euclidean_division_equations.

Definition adj_raw (name : string) (r : Z) : Z :=
  if String.eqb name "B#" then r - 12 else if String.eqb name "Cb" then r + 12 else r.

(* every tabulated spelling names the pitch class of its scale degree *)
Definition cell_ok (md : mode) (t i : Z) : bool :=
  match MXL_SPELLING md with
  | Some tab =>
      match nth_error tab (Z.to_nat t) with
      | Some row =>
          match nth_error row (Z.to_nat i) with
          | Some name =>
              match raw_name name with
              | Some r => let r' := adj_raw name r in
                          (0 <=? r') && (r' <? 12) && (r' =? (nth (Z.to_nat i) (SCALES md) 0 + t) mod 12)
              | None => false
              end
          | None => false
          end
      | None => false
      end
  | None => true
  end.

Definition tonics : list Z := [0; 1; 2; 3; 4; 5; 6; 7; 8; 9; 10; 11].
Definition degrees7 : list Z := [0; 1; 2; 3; 4; 5; 6].

Lemma spelling_tables_ok :
  forallb (fun md => forallb (fun t => forallb (cell_ok md t) degrees7) tonics) all_modes = true.
Proof. vm_compute. reflexivity. Qed.

Lemma zfind_opt_sound x l i : zfind_opt x l = Some i -> 0 <= i < Z.of_nat (length l) /\ nth (Z.to_nat i) l 0 = x.
Proof.
  revert i. induction l as [|y l IH]; intros i H; [discriminate|]. cbn [zfind_opt] in H.
  destruct (x =? y) eqn:E.
  - injection H as <-. cbn. split; lia.
  - destruct (zfind_opt x l) as [j|]; [|discriminate]. injection H as <-. destruct (IH j eq_refl) as [B N].
    cbn [length]. split; [lia|]. replace (Z.to_nat (Z.succ j)) with (S (Z.to_nat j)) by lia. exact N.
Qed.

Lemma scales_length' md : length (SCALES md) = 7%nat.
Proof. destruct md; reflexivity. Qed.

Lemma all_modes_in' md : In md all_modes. Proof. destruct md; cbn; tauto. Qed.

(* the note written for pitch p sounds p: MIDI number 60 + p, for every pitch in Z, every mode, every tonality
   with a normalised degree - whatever the enharmonic spelling *)
Theorem spelled_midi_ok c p : 0 <= tdeg (cton c) < 12 -> spelled_midi c p = Some (p + 60).
Proof.
  intros Ht. unfold spelled_midi.
  set (tsp := map (fun s => s mod 12) (ton_scale (cton c))).
  destruct (MXL_SPELLING (tmode (cton c))) as [tab|] eqn:Etab; [|f_equal; lia].
  destruct (zfind_opt (p mod 12) tsp) as [idx|] eqn:Ei; [|f_equal; lia].
  destruct (zfind_opt_sound _ _ _ Ei) as [Bi Ni].
  assert (L7 : length tsp = 7%nat) by (unfold tsp, ton_scale; rewrite !map_length; destruct (tmode (cton c)); reflexivity).
  rewrite L7 in Bi.
  assert (E0 : (tdeg (cton c) <? 0) = false) by lia. rewrite E0.
  pose proof spelling_tables_ok as SW. rewrite forallb_forall in SW.
  specialize (SW _ (all_modes_in' (tmode (cton c)))). rewrite forallb_forall in SW.
  specialize (SW (tdeg (cton c)) ltac:(unfold tonics; cbn; lia)). rewrite forallb_forall in SW.
  specialize (SW idx ltac:(unfold degrees7; cbn; lia)). unfold cell_ok in SW. rewrite Etab in SW.
  destruct (nth_error tab (Z.to_nat (tdeg (cton c)))) as [row|]; [|discriminate]. cbn [obind].
  destruct (nth_error row (Z.to_nat idx)) as [name|]; [|discriminate]. cbn [obind].
  unfold m21_midi. destruct (raw_name name) as [r|]; [|discriminate]. cbn [obind].
  (* the scale pitch class found at idx is the spelled one *)
  assert (Hpc : nth (Z.to_nat idx) tsp 0 = (nth (Z.to_nat idx) (SCALES (tmode (cton c))) 0 + tdeg (cton c)) mod 12).
  { unfold tsp, ton_scale, abs_degree. rewrite map_map.
    rewrite (nth_indep _ 0 ((fun x => (x + (tdeg (cton c) + 12 * toct (cton c))) mod 12) 0)) by (rewrite map_length, scales_length'; lia).
    rewrite (map_nth (fun x => (x + (tdeg (cton c) + 12 * toct (cton c))) mod 12)). lia. }
  unfold adj_raw in SW. f_equal.
  destruct (String.eqb name "B#"); [lia|]. destruct (String.eqb name "Cb"); lia.
Qed.


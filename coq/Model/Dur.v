(* Model of durations (exact rationals): Note.__init__/set_duration/augment/
   __getattr__ (suffix), Melody.duration/augment/set_duration/get_onset_times,
   Chord.duration, Score.duration, Note.decompose_duration, and
   fractions.Fraction.limit_denominator(1000) (CPython 3.12) exactly. *)
From ML Require Import Model.Types gen.Tables.
From Coq Require Import QArith Qminmax.
Open Scope Z_scope.

(* ---- Fraction.limit_denominator(maxd) ---- *)
Fixpoint ld_loop (fuel : nat) (maxd p0 q0 p1 q1 n d : Z) : Z * Z * Z * Z * Z :=
  match fuel with
  | O => (p0, q0, p1, q1, d)
  | S f =>
      let a := n / d in
      let q2 := q0 + a * q1 in
      if maxd <? q2 then (p0, q0, p1, q1, d)
      else ld_loop f maxd p1 q1 (p0 + a * p1) q2 d (n - a * d)
  end.

Definition limit_den_max (maxd : Z) (x : Q) : Q :=
  let r := Qred x in
  let den := Zpos (Qden r) in
  if den <=? maxd then r
  else
    let '(p0, q0, p1, q1, d) := ld_loop 80 maxd 0 1 1 0 (Qnum r) den in
    let k := (maxd - q0) / q1 in
    if 2 * d * (q0 + k * q1) <=? den then Qmake p1 (Z.to_pos q1)
    else Qmake (p0 + k * p1) (Z.to_pos (q0 + k * q1)).

Definition limit_den (x : Q) : Q := limit_den_max 1000 x.

(* did limit_denominator leave the value alone? (the library's documented resolution) *)
Definition fits (x : Q) : bool := Zpos (Qden (Qred x)) <=? 1000.

(* ---- notes ---- *)
Definition note_new (d : Q) : Q := limit_den d.
Definition note_augment (d k : Q) : Q := limit_den (d * k).
Definition note_set_duration (v : Q) : Q := limit_den v.
Fixpoint qassoc (k : string) (l : list (string * Q)) : option Q :=
  match l with [] => None | (k', v) :: r => if String.eqb k k' then Some v else qassoc k r end.
Definition note_suffix (d : Q) (s : string) : option Q :=
  match qassoc s STR_TO_DURATION with Some m => Some (Qred (d * m)) | None => None end.

(* ---- melodies, chords, scores (as lists of durations) ---- *)
Definition qsum (l : list Q) : Q := fold_left Qplus l 0%Q.
Definition mel_dur (m : list Q) : Q := qsum m.
Definition qmax (a b : Q) : Q := if Qle_bool a b then b else a.
Definition chord_dur (parts : list (list Q)) : Q :=
  match parts with [] => 0%Q | p :: r => fold_left (fun acc m => qmax acc (mel_dur m)) r (mel_dur p) end.
Definition score_dur (chords : list (list (list Q))) : Q := qsum (map chord_dur chords).

Fixpoint onsets_from (t : Q) (m : list Q) : list Q :=
  match m with [] => [] | d :: r => t :: onsets_from (t + d)%Q r end.
Definition onset_times (m : list Q) : list Q := onsets_from 0%Q m.

Definition mel_augment (m : list Q) (k : Q) : list Q := map (fun d => note_augment d k) m.
Definition mel_set_duration (m : list Q) (d : Q) : option (list Q) :=
  if Qeq_bool d 0 then Some (mel_augment m 0)    (* set_duration(0) is augment(0), whatever the melody lasts *)
  else if Qeq_bool (mel_dur m) 0 then None       (* ZeroDivisionError: a melody of length 0 cannot be stretched *)
  else Some (mel_augment m (d / mel_dur m)%Q).

(* ---- Note.decompose_duration ---- *)
Definition in_table (d : Q) : bool := existsb (fun kv => Qeq_bool (fst kv) d) DURATION_TO_STR.

Definition is_int (q : Q) : bool := Zpos (Qden (Qred q)) =? 1.

Definition candidates (d : Q) : list Q :=
  filter (fun c => negb (Qeq_bool c 0) && is_int (d / c)%Q && negb (Qle_bool d c)) (map fst DURATION_TO_STR).

Definition qmaximum (l : list Q) : option Q :=
  match l with [] => None | x :: r => Some (fold_left qmax r x) end.

(* _recurse: the durations [base; rest...] before the final reversal *)
Fixpoint decompose_rec (fuel : nat) (d : Q) : list Q :=
  match fuel with
  | O => [d]
  | S f =>
      if in_table d then [d]
      else match qmaximum (candidates d) with
           | None => [d]
           | Some c =>
               let base := note_augment d (c / d)%Q in
               let rest := note_augment d ((d - base) / d)%Q in
               base :: decompose_rec f (note_new rest)
           end
  end.

(* result[::-1] with the first/last notes re-typed: the durations are reversed *)
Definition decompose (fuel : nat) (d : Q) : list Q := rev (decompose_rec fuel d).

(* every limit_denominator call along the decomposition left its value alone
   (true on the library's documented resolution; checked, not assumed) *)
Fixpoint dec_ok (fuel : nat) (d : Q) : bool :=
  match fuel with
  | O => true
  | S f =>
      if in_table d then true
      else match qmaximum (candidates d) with
           | None => true
           | Some c =>
               let base := note_augment d (c / d)%Q in
               let rest := note_augment d ((d - base) / d)%Q in
               negb (Qeq_bool d 0) && fits (d * ((d - base) / d))%Q && fits rest && dec_ok f (note_new rest)
           end
  end.

(* ---- correspondence checkers ---- *)
Definition qlist_eqb (a b : list Q) : bool := list_eqb Qeq_bool a b.

(* (raw duration, k, set_duration value, (Note(d).duration, augment(k), set_duration(v))) *)
Definition check_note_dur (x : Q * Q * Q * (Q * Q * Q)) : bool :=
  let '(d, k, v, (r0, r1, r2)) := x in
  Qeq_bool (note_new d) r0 && Qeq_bool (note_augment (note_new d) k) r1 && Qeq_bool (note_set_duration v) r2.

(* melody of note durations, k, target d: (duration, onsets, augment(k) durations, set_duration(d) durations) *)
Definition check_melody_dur (x : list Q * Q * Q * (Q * list Q * list Q * option (list Q))) : bool :=
  let '(m, k, d, (r0, r1, r2, r3)) := x in
  Qeq_bool (mel_dur m) r0 && qlist_eqb (onset_times m) r1 && qlist_eqb (mel_augment m k) r2 &&
  option_eqb qlist_eqb (mel_set_duration m d) r3.

Definition check_score_dur (x : list (list (list Q)) * Q) : bool :=
  let '(s, r) := x in Qeq_bool (score_dur s) r.

Definition check_decompose (x : Q * list Q) : bool :=
  let '(d, r) := x in qlist_eqb (decompose 2000 (note_new d)) r && implb (fits d) (dec_ok 2000 (note_new d)).

Definition check_suffix (x : Q * string * option Q) : bool :=
  let '(d, s, r) := x in option_eqb Qeq_bool (note_suffix d s) r.

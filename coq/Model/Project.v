(* Model of plain harmonic projection (integer ticks): time_utils.put_on_same_chord and
   time_utils.project_on_score (Score.project_on_score(voice_leading=False), keep_score on/off). *)
From ML Require Import Model.Types gen.Tables Model.Pitch Model.Rel Model.Render Model.Slice.
Open Scope Z_scope.
Open Scope list_scope.

(* Score.instruments : part names in order of first appearance *)
Definition instruments (s : rscore) : list string := track_list s.

(* put_on_same_chord: every part concatenated over the chords, a rest where it is absent; on the first chord *)
Definition part_over (s : rscore) (ins : string) : list tnote :=
  flat_map (fun c => match plook ins (rparts c) with Some m => m | None => [silence (rchord_dur c)] end) s.

Definition put_on_same_chord (s : rscore) : option rchord :=
  match s with
  | [] => None                                       (* IndexError: score[0] *)
  | c0 :: _ => Some (mkRC (rc c0) (map (fun ins => (ins, part_over s ins)) (instruments s)))
  end.

(* dict update {**target, **projected}: projected parts replace / are appended to the target's *)
Fixpoint dict_update (d : list (string * list tnote)) (k : string) (v : list tnote) : list (string * list tnote) :=
  match d with
  | [] => [(k, v)]
  | (k', v') :: r => if String.eqb k k' then (k', v) :: r else (k', v') :: dict_update r k v
  end.

Fixpoint project_loop (s : rscore) (g : rscore) (start : Z) (keep : bool) : option rscore :=
  match g with
  | [] => Some []
  | c2 :: r =>
      let end_ := start + rchord_dur c2 in
      do sub <- score_between s 0 start end_ ;;
      match sub with
      | [] => Some []                                 (* get_score_between returned None: break *)
      | _ =>
          do pc <- put_on_same_chord sub ;;
          let parts := if keep then fold_left (fun d kv => dict_update d (fst kv) (snd kv)) (rparts pc) (rparts c2)
                       else rparts pc in
          do rest <- project_loop s r end_ keep ;;
          Some (mkRC (rc c2) parts :: rest)
      end
  end.

Definition project_plain (s g : rscore) (keep : bool) : option rscore := project_loop s g 0 keep.

Definition check_project (x : rscore * rscore * bool * option rscore) : bool :=
  let '(s, g, k, r) := x in option_eqb rscore_eqb (project_plain s g k) r.

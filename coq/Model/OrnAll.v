(* realize_tags with several tags (ornementation.py): the builders run one after the other in a fixed order, each on
   what the previous ones produced - a Note at first, a Melody as soon as one builder has fired.  On a Melody,
   set_duration(x) is augment(x / its duration) (every note scaled, then rounded), .n makes every note zero-length,
   .duration is the sum of the (rounded) pieces; interpolate leaves a Melody alone.
   A realisation is the list of the durations of the produced pieces; None = the python code raises
   (ZeroDivisionError in Melody.set_duration, or the final assertion).
   setd_old is Melody.set_duration before the repair (division by the melody's length also for the target 0). *)
From ML Require Import Model.Types gen.Tables Model.Dur Model.Orn.
From Coq Require Import QArith Qround.
Open Scope Z_scope.
Open Scope list_scope.

Record ost := mkO { o_note : bool; o_l : list Q }.
(* Melody.duration: python's Fractions stay reduced; summing with a reduction at every step keeps the model's numbers small too
   (Qplus alone multiplies the denominators of thousands of pieces) *)
Definition qsum_red (l : list Q) : Q := fold_left (fun a x => Qred (a + x)%Q) l 0%Q.
Definition odur (s : ost) : Q := qsum_red (o_l s).

Section Pipe.
  Variable sdf : Q -> Q.              (* the rounding of Note.set_duration / Note.augment *)
  Variable repaired : bool.

  (* new_note.set_duration(x) *)
  Definition setd (s : ost) (x : Q) : option (list Q) :=
    if o_note s then Some [sdf x]
    else if repaired && Qeq_bool x 0 then Some (map (fun q => sdf (q * 0)%Q) (o_l s))
    else if Qeq_bool (odur s) 0 then None
    else Some (map (fun q => sdf (q * (x / odur s))%Q) (o_l s)).

  (* new_note.n *)
  Definition zero_copy (s : ost) : list Q := map (fun q => Qred (q * 0)%Q) (o_l s).

  Definition b_mordant (s : ost) : option ost :=
    let D := odur s in
    if Qle_bool (1 # 2) D then
      do a <- setd s (1 # 4) ;; do b <- setd s (D - 2 * (1 # 4))%Q ;; Some (mkO false (a ++ [sdf (1 # 4)] ++ b))
    else Some s.

  Definition b_grupetto_with (md : Q) (s : ost) : option ost :=
    let D := odur s in
    do a <- setd s md ;; Some (mkO false (zero_copy s ++ [sdf md] ++ a ++ [sdf md] ++ [sdf (D - 3 * md)%Q])).

  Definition b_grupetto (s : ost) : option ost :=
    let D := odur s in
    if Qle_bool (3 # 2) D then b_grupetto_with (1 # 2) s
    else if Qle_bool (1 # 2) D then b_grupetto_with ((2 # 3) * (1 # 4)) s else Some s.

  Definition b_grupetto_short (s : ost) : option ost :=
    if Qle_bool (1 # 2) (odur s) then b_grupetto_with ((2 # 3) * (1 # 4)) s else Some s.

  Fixpoint roll_pieces (a : list Q) (md : Q) (n : nat) (even : bool) : list Q :=
    match n with
    | O => []
    | S k => (if even then a else [sdf md]) ++ roll_pieces a md k (negb even)
    end.

  Definition b_roll (md : Q) (s : ost) : option ost :=
    let D := odur s in
    let nb := qfloor (D / md) in
    if nb =? 0 then Some s
    else
      do a <- setd s md ;;
      let pieces := roll_pieces a md (Z.to_nat nb) true in
      Some (mkO false (if is_intq (D / md)%Q then pieces else pieces ++ [sdf (D - inject_Z nb * md)%Q])).

  (* suspension: a continuation of half the span, then the figure on the other half; suspension_prev_repeat: the previous note *)
  Definition b_susp (c : nctx) (s : ost) : option ost :=
    let D := odur s in
    if has_last c then do a <- setd s (D / 2)%Q ;; Some (mkO false (sdf (D / 2)%Q :: a)) else Some s.

  Definition b_retarded (s : ost) : option ost :=
    let D := odur s in
    if Qle_bool D (1 # 12) then Some s
    else do a <- setd s (D - (1 # 12))%Q ;; Some (mkO false (sdf (1 # 12) :: a)).

  Definition b_interpolate (c : nctx) (s : ost) : option ost :=
    if o_note s then
      if negb (next_some c) || negb (next_isnote c) || negb (cur_isnote c) then Some s
      else if interp_delta c =? 0 then Some s
      else Some (mkO false (interpolate_like sdf c (odur s)))
    else Some s.

  Definition apply_tag (c : nctx) (s : ost) (t : tag) : option ost :=
    match t with
    | TAccent => Some s
    | TMordant | TInvMordant | TChromaMordant | TInvChromaMordant => b_mordant s
    | TGrupetto => b_grupetto s
    | TInvGrupetto | TChromaGrupetto | TInvChromaGrupetto => b_grupetto_short s
    | TRoll => b_roll (1 # 4) s
    | TRollFast => b_roll (1 # 6) s
    | TSuspensionPrev | TSuspensionPrevRepeat => b_susp c s
    | TRetarded => b_retarded s
    | TInterpolate => b_interpolate c s
    end.

  Fixpoint pipeline (c : nctx) (ts : list tag) (s : ost) : option ost :=
    match ts with
    | [] => Some s
    | t :: r => do s' <- apply_tag c s t ;; pipeline c r s'
    end.
End Pipe.

(* realize_tags: the tags of the note, in the order of the function's tests, then the final assertion on the total *)
Definition realize_all (c : nctx) (ts : list tag) (d : Q) : option (list Q) :=
  do s <- pipeline sd true c ts (mkO true [d]) ;;
  if Qeq_bool (odur s) d then Some (o_l s) else None.

(* the same in exact arithmetic *)
Definition ideal_all (c : nctx) (ts : list tag) (d : Q) : option (list Q) :=
  option_map o_l (pipeline (fun x => x) true c ts (mkO true [d])).

Definition check_realize_all (x : nctx * list tag * Q * option (list Q)) : bool :=
  let '(c, ts, d, r) := x in option_eqb qlist_eqb (realize_all c ts d) r.

(* Model of Score.o(k) at rendering level (integer ticks): Chord.o_melody on every chord = Note.o(k) on every note of every part
   (scale, chromatic, chord-tone, bass-tone, absolute and pattern notes move; relative notes, drums, rests, continuations are copied). *)
From ML Require Import Model.Types gen.Tables Model.Pitch Model.Rel Model.Ton Model.Render Model.Slice.
Open Scope Z_scope.
Open Scope list_scope.

Definition tnote_o (k : Z) (n : tnote) : tnote := mkTN (note_o (tn n) k) (tdur n) (tamp n).
Definition rscore_note_map (f : tnote -> tnote) (s : rscore) : rscore :=
  map (fun c => mkRC (rc c) (map (fun p => (fst p, map f (snd p))) (rparts c))) s.
Definition score_o (s : rscore) (k : Z) : rscore := rscore_note_map (tnote_o k) s.

Definition check_score_o (x : rscore * Z * option rscore) : bool :=
  let '(s, k, r) := x in option_eqb rscore_eqb (Some (score_o s k)) r.

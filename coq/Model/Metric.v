(* Model of metric grids in tatum units: Metric.get_beat_durations,
   _apply_durations_to_melody / apply_to_melody (whole metric, expand=True),
   complementary, reversed, circular_shift, FromMelody, and
   utils_metric.bjorklund_algorithm (Euclidean rhythms). *)
From ML Require Import Model.Types.
From Coq Require Import Lia.
Open Scope Z_scope.
Open Scope list_scope.

(* ---- get_beat_durations: groups (is_note, number of tatums); array entries: 1 = pulse,
   0 = hold, anything else = start of a rest ---- *)
Fixpoint groups_from (is_note : bool) (cur : Z) (l : list Z) : list (bool * Z) :=
  match l with
  | [] => [(is_note, cur)]
  | b :: r =>
      if b =? 0 then groups_from is_note (cur + 1) r
      else if b =? 1 then (is_note, cur) :: groups_from true 1 r
      else (is_note, cur) :: groups_from false 1 r
  end.

Definition beat_durations (array : list Z) : option (list (bool * Z) * bool) :=
  match array with
  | [] => None                                       (* IndexError on array[0] *)
  | a :: r => Some (groups_from (a =? 1) 1 r, a =? 1)
  end.

(* _apply_durations_to_melody (expand=True): entry = (Some i : the melody's note i, None : a rest), tatums *)
Fixpoint apply_groups (m : Z) (idx : Z) (first_has_note : bool) (gs : list (bool * Z)) : list (option Z * Z) :=
  match gs with
  | [] => []
  | (has_note, k) :: r =>
      (if (idx =? 0) && negb first_has_note then (None, k)
       else if has_note then (Some (idx mod m), k) else (None, k))
      :: apply_groups m (idx + 1) first_has_note r
  end.

(* apply_to_melody on the whole metric with m >= 1 notes *)
Definition apply_metric (array : list Z) (m : Z) : option (list (option Z * Z)) :=
  if m <=? 0 then None                               (* ZeroDivisionError: idx % 0 *)
  else match beat_durations array with
       | Some (gs, f) => Some (apply_groups m 0 f gs)
       | None => None
       end.

(* apply_to_melody(expand=False): the melody is not repeated; it is padded with rests up to sum(array) elements, and the loop stops
   at an entry whose index exceeds the padded length.  Some j = the melody's note j, None = a rest (a padding rest included) *)
Definition zsum (l : list Z) : Z := fold_right Z.add 0 l.
Fixpoint apply_groups_ne (m m' idx : Z) (first_has_note : bool) (gs : list (bool * Z)) : list (option Z * Z) :=
  match gs with
  | [] => []
  | (has_note, k) :: r =>
      if (idx =? 0) && negb first_has_note then (None, k) :: apply_groups_ne m m' (idx + 1) first_has_note r
      else if m' <? idx then []                                      (* break *)
      else ((if has_note then (let j := idx mod m' in if j <? m then Some j else None) else None), k)
           :: apply_groups_ne m m' (idx + 1) first_has_note r
  end.

Definition apply_metric_ne (array : list Z) (m : Z) : option (list (option Z * Z)) :=
  if m <=? 0 then None
  else match beat_durations array with
       | Some (gs, f) => Some (apply_groups_ne m (Z.max m (zsum array)) 0 f gs)
       | None => None
       end.

Definition complementary (a : list Z) : list Z := map (fun x => 1 - x) a.
Definition reversed (a : list Z) : list Z := rev a.
Definition circular_shift (a : list Z) (n : Z) : list Z :=
  let len := Z.of_nat (length a) in
  if len =? 0 then a                                  (* ZeroDivisionError, not reachable: a metric is never empty *)
  else let k := Z.to_nat (Z.modulo (Z.opp n) len) in skipn k a ++ firstn k a.

(* FromMelody with the metric's tatum: each entry (is a pitched note?, tatums) *)
Definition from_melody (entries : list (bool * Z)) : list Z :=
  flat_map (fun e : bool * Z => (if fst e then 1 else 0) :: repeat 0 (Z.to_nat (snd e - 1))) entries.

(* ---- bjorklund_algorithm ---- *)
(* the Euclid loop: levels as (count, remainder), most recent first *)
Fixpoint bj_levels (fuel : nat) (divisor r : Z) (acc : list (Z * Z)) : option (list (Z * Z)) :=
  match fuel with
  | O => None
  | S f =>
      if r =? 0 then None                             (* ZeroDivisionError *)
      else
        let c := divisor / r in
        let r' := divisor mod r in
        let acc' := (c, r) :: acc in
        if r' <=? 1 then Some ((r, r') :: acc')         (* counts.append(divisor) with divisor = r *)
        else bj_levels f r r' acc'
  end.

Fixpoint repeat_list_z (l : list Z) (k : nat) : list Z :=
  match k with O => [] | S k' => l ++ repeat_list_z l k' end.

(* build(level) and build(level - 1), memoised *)
Fixpoint bld2 (lv : list (Z * Z)) : list Z * list Z :=
  match lv with
  | [] => ([0], [1])
  | (c, r) :: rest =>
      let '(b1, b2) := bld2 rest in
      (repeat_list_z b1 (Z.to_nat c) ++ (if r =? 0 then [] else b2), b1)
  end.

Fixpoint index_one (l : list Z) : option nat :=
  match l with [] => None | x :: r => if x =? 1 then Some O else option_map S (index_one r) end.

Definition bjorklund (steps pulses : Z) : option (list Z) :=
  if steps <? pulses then None
  else
    do lv <- bj_levels (Z.to_nat pulses + 2) (steps - pulses) pulses [] ;;
    let pattern := fst (bld2 lv) in
    do i <- index_one pattern ;;                       (* ValueError if there is no pulse *)
    Some (skipn i pattern ++ firstn i pattern).

(* ---- correspondence checkers ---- *)
Definition entry_eqb (a b : option Z * Z) : bool := option_eqb Z.eqb (fst a) (fst b) && (snd a =? snd b).
Definition check_apply (x : list Z * Z * option (list (option Z * Z))) : bool :=
  let '(a, m, r) := x in option_eqb (list_eqb entry_eqb) (apply_metric a m) r.
Definition check_apply_ne (x : list Z * Z * option (list (option Z * Z))) : bool :=
  let '(a, m, r) := x in option_eqb (list_eqb entry_eqb) (apply_metric_ne a m) r.
Definition check_bjorklund (x : Z * Z * option (list Z)) : bool :=
  let '(s, p, r) := x in option_eqb (list_eqb Z.eqb) (bjorklund s p) r.
Definition check_algebra (x : list Z * Z * (list Z * list Z * list Z)) : bool :=
  let '(a, n, (c, rv, sh)) := x in
  list_eqb Z.eqb (complementary a) c && list_eqb Z.eqb (reversed a) rv && list_eqb Z.eqb (circular_shift a n) sh.
Definition check_from_melody (x : list (bool * Z) * list Z) : bool :=
  let '(e, r) := x in list_eqb Z.eqb (from_melody e) r.

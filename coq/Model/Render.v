(* Model of rendering: to_midi.get_track_list / note_to_pitch / melody_to_pitches /
   create_melody_for_track / get_notes (rows, time in integer ticks) and
   matrix_to_events (seconds, exact rationals).  Tag-free scores (ornaments are
   C16), no tempo changes. *)
From ML Require Import Model.Types gen.Tables Model.Pitch Model.Rel.
From Coq Require Import QArith.
Open Scope Z_scope.
Open Scope list_scope.

Record tnote := mkTN { tn : pnote; tdur : Z; tamp : Z }.
Record rchord := mkRC { rc : chord; rparts : list (string * list tnote) }.
Definition rscore := list rchord.

Definition is_rest (n : tnote) : bool := kind_eqb (pkind (tn n)) KR.
Definition is_cont (n : tnote) : bool := kind_eqb (pkind (tn n)) KL.

Fixpoint plook {B} (k : string) (d : list (string * B)) : option B :=
  match d with [] => None | (k', v) :: r => if String.eqb k k' then Some v else plook k r end.

Definition part_dur (m : list tnote) : Z := fold_left (fun a n => a + tdur n) m 0.

(* Chord.duration : longest part, 0 without parts *)
Definition rchord_dur (c : rchord) : Z :=
  match rparts c with
  | [] => 0
  | p :: r => fold_left (fun a q => Z.max a (part_dur (snd q))) r (part_dur (snd p))
  end.

(* get_track_list : part names in order of first appearance *)
Fixpoint dedup_str (seen : list string) (l : list string) : list string :=
  match l with
  | [] => []
  | x :: r => if existsb (String.eqb x) seen then dedup_str seen r else x :: dedup_str (x :: seen) r
  end.
Definition track_list (s : rscore) : list string :=
  dedup_str [] (flat_map (fun c => map fst (rparts c)) s).

(* note_to_pitch_result, all branches.  None = exception; Some None = no pitch (-> 0) *)
Definition pitch_full (c : chord) (n : pnote) (last : Z) : option (option Z) :=
  match pkind n, pdir n with
  | (KR | KL | KX), _ => Some None
  | KD, _ => option_map Some (pitch_basic c n)
  | _, Abs => to_pitch_abs c n
  | _, _ => option_map Some (to_pitch_rel c n last)
  end.

Record row := mkRow {
  r_pitch : Z; r_off : Z; r_dur : Z; r_vel : Z; r_track : nat; r_sil : bool; r_cont : bool }.

(* note_to_pitch : the reference is the last sounded row of the part in this run *)
Definition note_row (n : tnote) (c : chord) (idx : nat) (time : Z) (last : option Z) : option (row * option Z) :=
  let lp := match last with Some p => p | None => 0 end in
  do pr <- pitch_full c (tn n) lp ;;
  let p := match pr with Some p => p | None => 0 end in
  let haslast := match last with Some _ => true | None => false end in
  let sil := is_rest n || (is_cont n && negb haslast) in
  let cont := is_cont n && haslast in
  let r := mkRow p time (tdur n) (tamp n) idx sil cont in
  Some (r, if negb (sil || cont) then Some p else last).

(* melody_to_pitches *)
Fixpoint melody_rows (m : list tnote) (c : chord) (idx : nat) (time : Z) (last : option Z)
  : option (list row * option Z) :=
  match m with
  | [] => Some ([], last)
  | n :: r =>
      do x <- note_row n c idx time last ;;
      do y <- melody_rows r c idx (time + tdur n) (snd x) ;;
      Some (fst x :: fst y, snd y)
  end.

(* create_melody_for_track *)
Fixpoint track_rows (s : rscore) (idx : nat) (track : string) (time : Z) (last : option Z) : option (list row) :=
  match s with
  | [] => Some []
  | c :: r =>
      match plook track (rparts c) with
      | Some part =>
          do x <- melody_rows part (rc c) idx time last ;;
          do y <- track_rows r idx track (time + rchord_dur c) (snd x) ;;
          Some (fst x ++ y)
      | None => track_rows r idx track (time + rchord_dur c) None
      end
  end.

Fixpoint tracks_rows (s : rscore) (idx : nat) (tracks : list string) : option (list row) :=
  match tracks with
  | [] => Some []
  | t :: r => do a <- track_rows s idx t 0 None ;; do b <- tracks_rows s (S idx) r ;; Some (a ++ b)
  end.

Definition get_notes (s : rscore) : option (list row) := tracks_rows s 0 (track_list s).

(* ---- matrix_to_events ----
   rows are in ticks; tpq = ticks per quarter note; seconds = quarters * 60 / tempo.
   [cont_scaled] = false reproduces the original code, which added a continuation's
   duration in QUARTERS to a duration in seconds. *)
Record event := mkEv { e_pitch : Z; e_off : Q; e_dur : Q; e_vel : Z; e_track : nat; e_sil : bool }.

(* tempo is any rational number of beats per minute (72.5, 59.94 ...): the implementation divides by the number it is given *)
Definition secs (tpq : Z) (tempo : Q) (ticks : Z) : Q := (inject_Z ticks / inject_Z tpq * (60 # 1) / tempo)%Q.
Definition quarters (tpq : Z) (ticks : Z) : Q := (inject_Z ticks / inject_Z tpq)%Q.

Fixpoint nlook (k : nat) (d : list (nat * list event)) : option (list event) :=
  match d with [] => None | (k', v) :: r => if Nat.eqb k k' then Some v else nlook k r end.
Fixpoint nset (k : nat) (v : list event) (d : list (nat * list event)) : list (nat * list event) :=
  match d with
  | [] => [(k, v)]
  | (k', v') :: r => if Nat.eqb k k' then (k', v) :: r else (k', v') :: nset k v r
  end.

Definition extend_last (l : list event) (x : Q) : list event :=
  match rev l with
  | [] => l
  | e :: r => rev (mkEv (e_pitch e) (e_off e) (e_dur e + x)%Q (e_vel e) (e_track e) (e_sil e) :: r)
  end.

Definition ev_step (cont_scaled : bool) (tpq : Z) (tempo : Q) (d : list (nat * list event)) (r : row) : list (nat * list event) :=
  let so := secs tpq tempo (r_off r) in
  let sd := secs tpq tempo (r_dur r) in
  let t := r_track r in
  if negb (r_cont r) then
    nset t ((match nlook t d with Some l => l | None => [] end) ++ [mkEv (r_pitch r) so sd (r_vel r) t (r_sil r)]) d
  else
    match nlook t d with
    | Some l => nset t (extend_last l (if cont_scaled then sd else quarters tpq (r_dur r))) d
    | None => nset t [mkEv (r_pitch r) so sd (r_vel r) t true] d
    end.

(* stable insertion sort on a rational key *)
Fixpoint insert_q {A} (key : A -> Q) (x : A) (l : list A) : list A :=
  match l with
  | [] => [x]
  | y :: r => if Qle_bool (key x) (key y) then x :: y :: r else y :: insert_q key x r
  end.
Definition sort_q {A} (key : A -> Q) (l : list A) : list A := fold_right (insert_q key) [] l.

Definition matrix_to_events (cont_scaled : bool) (tpq : Z) (tempo : Q) (rows : list row) : list event :=
  let m := sort_key r_off rows in
  let d := fold_left (ev_step cont_scaled tpq tempo) m [] in
  sort_q e_off (filter (fun e => negb (e_sil e)) (flat_map snd d)).

(* ---- correspondence checkers ---- *)
Definition row_eqb (a b : row) : bool :=
  (r_pitch a =? r_pitch b) && (r_off a =? r_off b) && (r_dur a =? r_dur b) && (r_vel a =? r_vel b) &&
  Nat.eqb (r_track a) (r_track b) && Bool.eqb (r_sil a) (r_sil b) && Bool.eqb (r_cont a) (r_cont b).

Definition check_get_notes (x : rscore * option (list row)) : bool :=
  let '(s, r) := x in option_eqb (list_eqb row_eqb) (get_notes s) r.

Definition ev_eqb (a b : event) : bool :=
  (* the python event does not carry its track index *)
  (e_pitch a =? e_pitch b) && Qeq_bool (e_off a) (e_off b) && Qeq_bool (e_dur a) (e_dur b) && (e_vel a =? e_vel b).

(* (scaled ? , score, tpq, tempo, expected events) *)
Definition check_events (x : bool * rscore * Z * Q * option (list event)) : bool :=
  let '(sc, s, tpq, tempo, r) := x in
  option_eqb (list_eqb ev_eqb) (option_map (matrix_to_events sc tpq tempo) (get_notes s)) r.

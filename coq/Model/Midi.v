(* Model of MIDI export on the rendered rows: midi_utils.merge_continuation_to_previous_note,
   setup_instruments (tracks grouped by program, drums), init_midi_file / number_to_channel /
   voice_to_channel / set_tracks (channels, programs), prepare_df_for_events (note-on/off, sort
   by track, time, type with NOTE_OFF before NOTE_ON) and apply_events (the absolute position int(offset * ticks_per_beat)
   of every event, written as the difference to the previous event of its track).  Time: integer ticks, tpq = ticks per quarter note. *)
From ML Require Import Model.Types gen.Tables Model.Pitch Model.Rel Model.Render.
Open Scope Z_scope.
Open Scope list_scope.

Definition TPB : Z := 480.

(* ---- merge_continuation_to_previous_note ---- *)
(* lengthen the most recent non-continuation row of the track *)
Fixpoint extend_recent (racc : list row) (t : nat) (d : Z) : list row :=   (* racc: most recent first *)
  match racc with
  | [] => []
  | r :: rest =>
      if Nat.eqb (r_track r) t
      then mkRow (r_pitch r) (r_off r) (r_dur r + d) (r_vel r) (r_track r) (r_sil r) (r_cont r) :: rest
      else r :: extend_recent rest t d
  end.

Definition merge_step (racc : list row) (r : row) : list row :=
  if r_cont r then extend_recent racc (r_track r) (r_dur r) else r :: racc.

Definition midi_merge (rows : list row) : list row :=
  filter (fun r => negb (r_sil r)) (rev (fold_left merge_step rows [])).

(* ---- setup_instruments ---- *)
Fixpoint zlook (k : string) (d : list (string * Z)) : option Z :=
  match d with [] => None | (k', v) :: r => if String.eqb k k' then Some v else zlook k r end.

(* program of a track from its instrument name (the part of the name before "__"); drums = -1 *)
Definition program_of (name : string) : Z :=
  if String.prefix "drums" name then -1
  else match zlook name INSTRUMENTS_DICT with Some p => p | None => 0 end.

Fixpoint dedup_z (seen : list Z) (l : list Z) : list Z :=
  match l with
  | [] => []
  | x :: r => if existsb (Z.eqb x) seen then dedup_z seen r else x :: dedup_z (x :: seen) r
  end.

Fixpoint zindex (x : Z) (l : list Z) : nat :=
  match l with [] => O | y :: r => if x =? y then O else S (zindex x r) end.

Definition groups_of (names : list string) : list Z := dedup_z [] (map program_of names).
Definition new_track (names : list string) (t : nat) : nat :=
  zindex (program_of (nth t names ""%string)) (groups_of names).
Definition new_programs (names : list string) : list Z := map (fun p => if p =? -1 then 0 else p) (groups_of names).
Definition new_is_drum (names : list string) : list bool := map (fun p => p =? -1) (groups_of names).

(* ---- channels ---- *)
Definition number_to_channel (n : Z) : Z := if n <? 9 then n else n + 1.
Fixpoint insert_sorted_unique (x : Z) (l : list Z) : list Z :=
  match l with
  | [] => [x]
  | y :: r => if x <? y then x :: y :: r else if x =? y then y :: r else y :: insert_sorted_unique x r
  end.
Definition instrument_list (progs : list Z) : list Z := fold_right insert_sorted_unique [] (0 :: progs).
Definition channel_of (progs : list Z) (drum : bool) (p : Z) : Z :=
  if drum then 9 else number_to_channel (Z.of_nat (zindex p (instrument_list progs))).

(* ---- events ---- *)
Record mevent := mkME { me_on : bool; me_time : Z; me_key : Z; me_vel : Z }.

(* stable insertion sort by (time, type) with NOTE_OFF before NOTE_ON *)
Definition me_le (a b : mevent) : bool :=
  (me_time a <? me_time b) || ((me_time a =? me_time b) && (negb (me_on a) || me_on b)).
Fixpoint me_insert (x : mevent) (l : list mevent) : list mevent :=
  match l with
  | [] => [x]
  | y :: r => if me_le x y then x :: y :: r else y :: me_insert x r
  end.
Definition me_sort (l : list mevent) : list mevent := fold_right me_insert [] l.

Definition track_events (rows : list row) : list mevent :=
  let sorted := sort_key r_off rows in
  me_sort (map (fun r => mkME true (r_off r) (r_pitch r + 60) (r_vel r)) sorted ++
           map (fun r => mkME false (r_off r + r_dur r) (r_pitch r + 60) (r_vel r)) sorted).

(* tick = int(offset * ticks_per_beat) per event (truncated once, times are never negative); delta = tick - last tick of the track *)
Definition tick_of (tpq t : Z) : Z := (t * TPB) / tpq.
Fixpoint with_deltas (tpq last : Z) (l : list mevent) : list (bool * Z * Z * Z) :=
  match l with
  | [] => []
  | e :: r => (me_on e, tick_of tpq (me_time e) - last, me_key e, me_vel e) :: with_deltas tpq (tick_of tpq (me_time e)) r
  end.

Record mtrack := mkMT { mt_channel : Z; mt_program : Z; mt_events : list (bool * Z * Z * Z) }.

Definition max_nat (l : list nat) : option nat :=
  match l with [] => None | x :: r => Some (fold_left Nat.max r x) end.

Definition midi_tracks (tpq : Z) (names : list string) (rows : list row) : option (list mtrack) :=
  let merged := map (fun r => mkRow (r_pitch r) (r_off r) (r_dur r) (r_vel r) (new_track names (r_track r)) (r_sil r) (r_cont r))
                    (midi_merge rows) in
  match max_nat (map r_track merged) with
  | None => None                                       (* nothing sounds: max() of an empty column *)
  | Some nb =>
      let progs := new_programs names in
      let drums := new_is_drum names in
      let trs := map (fun i =>
              let p := nth i progs 0 in
              let d := nth i drums false in
              mkMT (channel_of progs d p) p
                   (with_deltas tpq 0 (track_events (filter (fun r => Nat.eqb (r_track r) i) merged))))
            (seq 0 (S nb)) in
      (* more than 15 programs: number_to_channel runs past the 16 MIDI channels and mido refuses the message (ValueError) *)
      if forallb (fun t => (0 <=? mt_channel t) && (mt_channel t <=? 15)) trs then Some trs else None
  end.

(* ---- correspondence checker ---- *)
Definition mev_eqb (a b : bool * Z * Z * Z) : bool :=
  let '(o1, d1, k1, v1) := a in let '(o2, d2, k2, v2) := b in Bool.eqb o1 o2 && (d1 =? d2) && (k1 =? k2) && (v1 =? v2).
Definition mtrack_eqb (a b : mtrack) : bool :=
  (mt_channel a =? mt_channel b) && (mt_program a =? mt_program b) && list_eqb mev_eqb (mt_events a) (mt_events b).
Definition check_midi (x : rscore * Z * list string * option (list mtrack)) : bool :=
  let '(s, tpq, names, r) := x in
  option_eqb (list_eqb mtrack_eqb) (do rows <- get_notes s ;; midi_tracks tpq names rows) r.

(* Model of the extension algebra of Chord: get_extension_properties (from
   tokens), normalize_extension, __getitem__, invert, to_root_extension,
   get_inversion_index.  The regex tokenisation and the printing of the
   normal form are glue (DESIGN 2.4): the model's normal form is the parsed
   record with sorted modifier lists. *)
From ML Require Import Model.Types gen.Tables Model.Pitch.
Open Scope Z_scope.

(* Python's sorted() on str = lexicographic on code points *)
Fixpoint sinsert (x : string) (l : list string) : list string :=
  match l with
  | [] => [x]
  | y :: r => if String.leb x y then x :: y :: r else y :: sinsert x r
  end.
Definition ssort (l : list string) : list string := fold_right sinsert [] l.

(* a written extension: the modifier tokens in the order they are written *)
Definition parse_ext (w : extension) : extension :=
  mkE (fig w) (ssort (repl w)) (ssort (adds w)) (ssort (rems w)).

Definition with_ext (c : chord) (e : extension) : chord := mkC (celem c) e (cton c) (coct c).

(* Chord.__init__ : normalises without validating *)
Definition new_chord (e : Z) (w : extension) (t : tonality) (o : Z) : chord := mkC e (parse_ext w) t o.

(* Chord.__getitem__ : evaluates extension_notes (raises on an invalid modifier
   set), then normalises *)
Definition getitem (c : chord) (w : extension) : option chord :=
  let c' := with_ext c (parse_ext w) in
  do _ <- chord_notes_calc c' (fig w) ;; Some c'.

Definition four_family : list string := ["7"; "65"; "43"; "2"]%string.
Definition three_family : list string := [""; "6"; "64"]%string.

Fixpoint sindex (x : string) (l : list string) : option nat :=
  match l with
  | [] => None
  | y :: r => if String.eqb x y then Some O else option_map S (sindex x r)
  end.

Definition rot_in (fam : list string) (i : nat) (k : Z) : string :=
  nth (Z.to_nat ((Z.of_nat i + k) mod Z.of_nat (length fam))) fam ""%string.

Definition invert_fig0 (f : string) (k : Z) : option string :=
  match sindex f four_family with
  | Some i => Some (rot_in four_family i k)
  | None => match sindex f three_family with
            | Some i => Some (rot_in three_family i k)
            | None => None          (* 'Unknown extension' *)
            end
  end.

(* '5' is the explicit spelling of the root position triad (what I.o(1) builds): inverted as '' *)
Definition canon_fig (f : string) : string := if String.eqb f "5" then ""%string else f.
Definition invert_fig (f : string) (k : Z) : option string := invert_fig0 (canon_fig f) k.

Definition invert (c : chord) (k : Z) : option chord :=
  do f <- invert_fig (fig (cext c)) k ;;
  getitem c (mkE f (repl (cext c)) (adds (cext c)) (rems (cext c))).

Definition root_fig (f : string) : string :=
  if existsb (String.eqb f) three_family then ""%string
  else if existsb (String.eqb f) four_family then "7"%string else f.

Definition to_root_extension (c : chord) : option chord :=
  getitem c (mkE (root_fig (fig (cext c))) (repl (cext c)) (adds (cext c)) (rems (cext c))).

Definition get_inversion_index (c : chord) : option Z :=
  assoc (fig (cext c)) BASE_CHORDAL_TRANSLATION_DICT.

(* ---- correspondence checkers ---- *)
Definition str_list_eqb := list_eqb String.eqb.
Definition ext_eqb (a b : extension) : bool :=
  String.eqb (fig a) (fig b) && str_list_eqb (repl a) (repl b) &&
  str_list_eqb (adds a) (adds b) && str_list_eqb (rems a) (rems b).

(* written extension -> normal form the code prints *)
Definition check_normalize (x : extension * extension) : bool :=
  let '(w, r) := x in ext_eqb (parse_ext w) r.

(* (chord, k, expected (extension of invert, inversion index of the result)) *)
Definition check_invert (x : chord * Z * option (extension * Z)) : bool :=
  let '(c, k, r) := x in
  let m := do c' <- invert c k ;; do i <- get_inversion_index c' ;; Some (cext c', i) in
  option_eqb (fun a b => ext_eqb (fst a) (fst b) && (snd a =? snd b)) m r.

Definition check_root (x : chord * option extension) : bool :=
  let '(c, r) := x in option_eqb ext_eqb (option_map cext (to_root_extension c)) r.

Definition check_getitem (x : chord * extension * option (extension * list Z)) : bool :=
  let '(c, w, r) := x in
  let m := do c' <- getitem c w ;; do p <- chord_extension_pitches c' ;; Some (cext c', p) in
  option_eqb (fun a b => ext_eqb (fst a) (fst b) && list_eqb Z.eqb (snd a) (snd b)) m r.

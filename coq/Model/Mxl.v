(* Model of the music21 / MusicXML export: to_mxl.get_note_spelling (table spelling with the
   B#/Cb octave correction, pitch-class fall-back), chord_instrument_to_notes (the tie / rest
   state machine) and score_instrument_to_notes.  music21's Note(name+octave).pitch.midi is
   modelled by its rule 12*(octave+1) + letter + accidentals.  Integer ticks. *)
From ML Require Import Model.Types gen.Tables Model.Pitch Model.Rel Model.Render.
From Coq Require Import Ascii.
Open Scope Z_scope.
Open Scope list_scope.

(* letter + sharps - flats, not reduced: B# = 12, Cb = -1 *)
Definition letter_pc (c : ascii) : option Z :=
  match c with
  | "C"%char => Some 0 | "D"%char => Some 2 | "E"%char => Some 4 | "F"%char => Some 5
  | "G"%char => Some 7 | "A"%char => Some 9 | "B"%char => Some 11 | _ => None
  end.
Fixpoint accidentals (s : string) : Z :=
  match s with
  | EmptyString => 0
  | String c r => (if Ascii.eqb c "#"%char then 1 else if Ascii.eqb c "b"%char then -1 else 0) + accidentals r
  end.
Definition raw_name (s : string) : option Z :=
  match s with
  | String c r => do l <- letter_pc c ;; Some (l + accidentals r)
  | EmptyString => None
  end.

(* midi number music21 gives to name + octave *)
Definition m21_midi (name : string) (octave : Z) : option Z := do r <- raw_name name ;; Some (12 * (octave + 1) + r).

Fixpoint zfind_opt (x : Z) (l : list Z) : option Z :=
  match l with [] => None | y :: r => if x =? y then Some 0 else option_map Z.succ (zfind_opt x r) end.

(* get_note_spelling -> the midi number of the note it builds *)
Definition spelled_midi (c : chord) (p : Z) : option Z :=
  let ton := cton c in
  let tsp := map (fun s => s mod 12) (ton_scale ton) in
  match MXL_SPELLING (tmode ton), zfind_opt (p mod 12) tsp with
  | Some tab, Some idx =>
      if tdeg ton <? 0 then None                                (* KeyError: tonality degree outside 0..11 *)
      else
        do row <- nth_error tab (Z.to_nat (tdeg ton)) ;;
        do name <- nth_error row (Z.to_nat idx) ;;
        let oct := (p + 48) / 12 in
        let oct' := if String.eqb name "B#" then oct - 1 else if String.eqb name "Cb" then oct + 1 else oct in
        m21_midi name oct'
  | _, _ => Some (12 * ((p + 48) / 12 + 1) + p mod 12)          (* Note(pitch class) with the octave set *)
  end.

(* ---- chord_instrument_to_notes / score_instrument_to_notes ---- *)
(* an element of the music21 voice: Some midi = a note, None = a rest; ticks; tied to the previous element? *)
Definition mel := (option Z * Z * bool)%type.

Record vstate := mkVS { v_midi : option Z; v_pitch : option Z; v_sil : bool; v_old : bool }.

Definition note_step (c : chord) (st : option (vstate * list mel)) (n : tnote) : option (vstate * list mel) :=
  do x <- st ;;
  let '(s, out) := x in
  match pkind (tn n) with
  | KR => Some (mkVS (v_midi s) (v_pitch s) true (v_old s), out ++ [(None, tdur n, false)])
  | KL =>
      let sil := if v_old s then true else v_sil s in
      match v_midi s with
      | Some m => if sil then Some (mkVS (v_midi s) (v_pitch s) true (v_old s), out ++ [(None, tdur n, false)])
                  else Some (mkVS (v_midi s) (v_pitch s) sil (v_old s), out ++ [(Some m, tdur n, true)])
      | None => Some (mkVS (v_midi s) (v_pitch s) true (v_old s), out ++ [(None, tdur n, false)])
      end
  | KD | KX => Some (s, out)                                     (* neither note, silence nor continuation: nothing is written *)
  | _ =>
      do last <- (match pdir (tn n), v_pitch s with
                  | Abs, _ => Some 0
                  | _, Some l => Some l
                  | _, None => None                              (* a relative note without reference: TypeError *)
                  end) ;;
      do pr <- pitch_full c (tn n) last ;;
      do p <- pr ;;
      do m <- spelled_midi c p ;;
      Some (mkVS (Some m) (Some p) false false, out ++ [(Some m, tdur n, false)])
  end.

Definition chord_step (track : string) (st : option (vstate * list mel)) (c : rchord) : option (vstate * list mel) :=
  do x <- st ;;
  let '(s, out) := x in
  match plook track (rparts c) with
  | Some part =>
      do y <- fold_left (note_step (rc c)) part (Some (mkVS (v_midi s) (v_pitch s) false (v_sil s), out)) ;;
      let '(s', out') := y in
      if part_dur part <? rchord_dur c
      then Some (mkVS (v_midi s') (v_pitch s') true (v_old s'), out' ++ [(None, rchord_dur c - part_dur part, false)])
      else Some y
  | None => Some (mkVS (v_midi s) (v_pitch s) true (v_old s), out ++ [(None, rchord_dur c, false)])
  end.

Definition voice_of (s : rscore) (track : string) : option (list mel) :=
  option_map snd (fold_left (chord_step track) s (Some (mkVS None None true true, []))).

Definition score_voices (s : rscore) : option (list (list mel)) := omap (voice_of s) (track_list s).

Definition mel_eqb (a b : mel) : bool :=
  let '(m1, d1, t1) := a in let '(m2, d2, t2) := b in option_eqb Z.eqb m1 m2 && (d1 =? d2) && Bool.eqb t1 t2.
Definition check_mxl (x : rscore * option (list (list mel))) : bool :=
  let '(s, r) := x in option_eqb (list_eqb (list_eqb mel_eqb)) (score_voices s) r.

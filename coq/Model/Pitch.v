(* Model of the pitch computation: Tonality.scale_pitches / abs_degree,
   Chord.scale_pitches, Chord._chord_notes_calc, chord_pitches,
   chord_extension_pitches, Note.real_chord,
   pitches_utils.get_value_to_scale_note(_with_accident),
   note_to_pitch_result (non-relative branch), Chord.to_pitch.
   Exceptions of the Python code are [None]. *)
From ML Require Import Model.Types gen.Tables.
Open Scope Z_scope.

(* ---- Python list helpers ---- *)
Definition zlen {A} (l : list A) : Z := Z.of_nat (length l).

(* l[i] for 0 <= i < len (callers establish the range) *)
Definition znth (l : list Z) (i : Z) : Z := nth (Z.to_nat i) l 0.

(* ---- Tonality ---- *)
Definition abs_degree (t : tonality) : Z := tdeg t + 12 * toct t.

Definition ton_scale (t : tonality) : list Z :=
  map (fun n => n + abs_degree t) (SCALES (tmode t)).

(* ---- Chord.scale_pitches : slice at the element, wrap +12, chord octave.
   Modelled for 0 <= element <= 7 (library elements are 0..6); other values
   follow Python's slice rules and are outside the model ([None]). ---- *)
Definition chord_scale (c : chord) : option (list Z) :=
  if (0 <=? celem c) && (celem c <=? 7) then
    let tsp := ton_scale (cton c) in
    let k := Z.to_nat (celem c) in
    Some (map (fun n => n + 12 * coct c)
              (skipn k tsp ++ map (fun t => t + 12) (firstn k tsp)))
  else None.

(* get_value_to_scale_note *)
Definition value_to_scale (v : Z) (sp : list Z) : option Z :=
  let n := zlen sp in
  if n =? 0 then None   (* ZeroDivisionError *)
  else Some (znth sp (v mod n) + 12 * (v / n)).

(* Note.real_chord : a per-note mode replaces the tonality mode *)
Definition real_chord (n : pnote) (c : chord) : chord :=
  match pmode n with
  | None => c
  | Some md => mkC (celem c) (cext c) (mkT (tdeg (cton c)) md (toct (cton c))) (coct c)
  end.

Definition range12 (b : Z) : list Z := map (fun i => b + Z.of_nat i) (seq 0 12).

(* pitch of a scale / chromatic / absolute / drum note; needs no chord tones.
   This is also the function _chord_notes_calc sorts table notes with. *)
Definition pitch_basic (c : chord) (n : pnote) : option Z :=
  do sp <- chord_scale (real_chord n c) ;;
  match pkind n with
  | KS => match pacc n with
          | Some a => do t <- ACCIDENTS_TO_NOTE (pval n) a ;;    (* KeyError otherwise *)
                      Some (znth sp 0 + t + 12 * poct n)
          | None => value_to_scale (pval n + 7 * poct n) sp
          end
  | KH => value_to_scale (pval n + 12 * poct n) (range12 (znth sp 0))
  | KA | KD => value_to_scale (pval n + 12 * poct n) (range12 0)
  | _ => None
  end.

(* ---- _chord_notes_calc ---- *)
Definition pn_eqb (a b : pnote) : bool :=       (* Note.__eq__ on table notes *)
  kind_eqb (pkind a) (pkind b) && dir_eqb (pdir a) (pdir b) &&
  (pval a =? pval b) && (poct a =? poct b) && option_eqb mode_eqb (pmode a) (pmode b).

(* Note.o(k) : s h c b a x move, the others are copied *)
Definition note_o (n : pnote) (k : Z) : pnote :=
  match pkind n, pdir n with
  | (KS | KH | KC | KB | KA | KX), Abs => mkP (pkind n) (pdir n) (pval n) (poct n + k) (pmode n) (pacc n)
  | _, _ => n
  end.

Definition no_oct (n : pnote) : pnote := note_o n (- poct n).

Fixpoint index_of (x : pnote) (l : list pnote) : option nat :=
  match l with
  | [] => None
  | y :: r => if pn_eqb y x then Some O else option_map S (index_of x r)
  end.

Fixpoint set_nth {A} (i : nat) (x : A) (l : list A) : list A :=
  match l, i with
  | [], _ => []
  | _ :: r, O => x :: r
  | y :: r, S j => y :: set_nth j x r
  end.

Definition insert_at {A} (i : nat) (x : A) (l : list A) : list A :=
  firstn i l ++ x :: skipn i l.

Definition remove_at {A} (i : nat) (l : list A) : list A :=
  firstn i l ++ skipn (S i) l.

Fixpoint dict_get (k : pnote) (d : list (pnote * pnote)) : option pnote :=
  match d with
  | [] => None
  | (k', v) :: r => if pn_eqb k' k then Some v else dict_get k r
  end.

(* dict assignment: replace an existing key in place, else append *)
Fixpoint dict_set (k v : pnote) (d : list (pnote * pnote)) : list (pnote * pnote) :=
  match d with
  | [] => [(k, v)]
  | (k', v') :: r => if pn_eqb k' k then (k', v) :: r else (k', v') :: dict_set k v r
  end.

Record cstate := mkS {
  s_notes : list pnote; s_nwo : list pnote;
  s_dict : list (pnote * pnote); s_extra : list string }.

Definition step_repl (st : option cstate) (r : string) : option cstate :=
  do s <- st ;;
  do (replaced, newn) <- assoc r DICT_REPLACEMENT ;;
  match index_of replaced (s_nwo s) with
  | None => Some (mkS (s_notes s) (s_nwo s) (s_dict s) (s_extra s ++ [r]))
  | Some idx =>
      let o := poct (nth idx (s_notes s) (plain KS 0 0)) in
      let nw := no_oct newn in
      Some (mkS (set_nth idx (note_o newn o) (s_notes s))
                (set_nth idx nw (s_nwo s))
                (dict_set replaced nw (s_dict s)) (s_extra s))
  end.

Definition step_add (st : option cstate) (a : string) : option cstate :=
  do s <- st ;;
  do (after, newn) <- assoc a DICT_ADDITION ;;
  let query := match dict_get after (s_dict s) with Some q => q | None => after end in
  do i <- index_of query (s_nwo s) ;;                       (* ValueError otherwise *)
  let newn' := note_o newn (poct after) in
  Some (mkS (insert_at (S i) newn' (s_notes s))
            (insert_at (S i) (no_oct newn') (s_nwo s)) (s_dict s) (s_extra s)).

(* last occurrence: len - reversed.index - 1 *)
Definition last_index_of (x : pnote) (l : list pnote) : option nat :=
  option_map (fun j => (length l - j - 1)%nat) (index_of x (rev l)).

Definition step_rem (st : option cstate) (r : string) : option cstate :=
  do s <- st ;;
  do removed <- assoc r DICT_REMOVAL ;;
  do i <- last_index_of removed (s_nwo s) ;;
  Some (mkS (remove_at i (s_notes s)) (remove_at i (s_nwo s)) (s_dict s) (s_extra s)).

(* stable insertion sort on a Z key (Python's sorted is stable) *)
Fixpoint insert_key {A} (key : A -> Z) (x : A) (l : list A) : list A :=
  match l with
  | [] => [x]
  | y :: r => if key x <=? key y then x :: y :: r else y :: insert_key key x r
  end.
(* inserting from the right, before the first element with a key >= : equal keys keep their original order *)
Definition sort_key {A} (key : A -> Z) (l : list A) : list A :=
  fold_right (insert_key key) [] l.

Fixpoint omap {A B} (f : A -> option B) (l : list A) : option (list B) :=
  match l with
  | [] => Some []
  | x :: r => do y <- f x ;; do ys <- omap f r ;; Some (y :: ys)
  end.

(* the notes before the final sort *)
Definition chord_notes_unsorted (f : string) (e : extension) : option (list pnote) :=
  do base <- assoc f BASE_EXTENSION_DICT ;;
  let s0 := mkS base (map no_oct base) [] [] in
  do s1 <- fold_left step_repl (repl e) (Some s0) ;;
  do s2 <- fold_left step_add (adds e ++ s_extra s1) (Some s1) ;;
  do s3 <- fold_left step_rem (rems e) (Some s2) ;;
  Some (s_notes s3).

(* _chord_notes_calc returns notes sorted by pitch; the model returns the
   sorted (pitch, note) pairs *)
Definition chord_notes_calc (c : chord) (f : string) : option (list (Z * pnote)) :=
  do ns <- chord_notes_unsorted f (cext c) ;;
  do ps <- omap (pitch_basic c) ns ;;
  Some (sort_key fst (combine ps ns)).

(* Chord.chord_notes : the root-position figure of the same family *)
Definition root_figure (f : string) : string :=
  if existsb (String.eqb f) ["2"; "65"; "43"; "7"]%string then "7"%string
  else if String.eqb f "9" then "9"%string
  else if String.eqb f "11" then "11"%string
  else if String.eqb f "13" then "13"%string
  else ""%string.

Definition chord_pitches (c : chord) : option (list Z) :=
  option_map (map fst) (chord_notes_calc c (root_figure (fig (cext c)))).

Definition chord_extension_pitches (c : chord) : option (list Z) :=
  option_map (map fst) (chord_notes_calc c (fig (cext c))).

(* ---- note_to_pitch_result, non-relative branch, behind Chord.to_pitch.
   Result: None = exception, Some None = Python None (rest, drum/pattern via
   to_pitch), Some (Some p) = pitch. ---- *)
Definition to_pitch_abs (c : chord) (n : pnote) : option (option Z) :=
  match pkind n with
  | KR | KD | KX => Some None
  | KL => Some None                      (* continuation with last_pitch None *)
  | KS | KH | KA => option_map Some (pitch_basic c n)
  | KC => do cp <- chord_pitches c ;; option_map Some (value_to_scale (pval n + zlen cp * poct n) cp)
  | KB => do cp <- chord_extension_pitches c ;; option_map Some (value_to_scale (pval n + zlen cp * poct n) cp)
  end.

(* correspondence checkers *)
Definition check_to_pitch (x : chord * pnote * option (option Z)) : bool :=
  let '(c, n, r) := x in
  option_eqb (option_eqb Z.eqb) (to_pitch_abs c n) r.

Definition check_pitch_lists (x : chord * option (list Z * list Z * list Z)) : bool :=
  let '(c, r) := x in
  let m := do a <- chord_scale c ;; do b <- chord_pitches c ;; do d <- chord_extension_pitches c ;; Some (a, b, d) in
  option_eqb (fun '(a, b, d) '(a', b', d') =>
    list_eqb Z.eqb a a' && list_eqb Z.eqb b b' && list_eqb Z.eqb d d') m r.

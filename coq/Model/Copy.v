(* Note.copy / Silence.copy / Continuation.copy, and the copies of melodies, chords and scores built on them (C20:
   "equality holds between an object and its copy").

   A copy is rebuilt through the Note constructor, which rounds the duration (Fraction.limit_denominator(1000)) and, for
   rests and continuations, starts from the defaults (value 0, octave 0, no mode, no accidental, default dynamics); the
   fields the constructor would lose are then assigned from the original.  The rounding function is a section variable:
   nothing below depends on what it does.  The *_old functions are the copy methods as they were before the repairs
   190c1fb / c3d0291 / 3de5c96 (no assignment after the constructor). *)
From ML Require Import Model.Types gen.Tables Model.Pitch Model.Ton Model.Code.
From Coq Require Import QArith.
Open Scope Z_scope.

Section Copy.
Variable round : Q -> Q.

(* Note.__init__ *)
Definition construct (k : kind) (d : dir) (v o : Z) (dur : Q) (md : option mode) (acc : option accident) (amp : Q)
           (tags : list string) : fnote :=
  mkF k d v o (round dur) md acc amp tags.

Definition DEFAULT_AMP : Q := 66.

Definition is_rest_kind (k : kind) : bool := match k with KR | KL => true | _ => false end.

Definition note_copy (n : fnote) : fnote :=
  if is_rest_kind (fk n) then
    (* Silence(duration, tags=set(tags)) / Continuation(duration, tags=set(tags)), then
       res.octave, res.duration, res.mode, res.accident, res.amp = the original's *)
    let c := construct (fk n) Abs 0 0 (fdur n) None None DEFAULT_AMP (ftags n) in
    mkF (fk c) (fd c) (fv c) (fo n) (fdur n) (fmode n) (facc n) (famp n) (ftags c)
  else
    (* Note(type, val, octave, duration, mode=, accident=, amp=, tags=set(tags)), then res.duration = the original's *)
    let c := construct (fk n) (fd n) (fv n) (fo n) (fdur n) (fmode n) (facc n) (famp n) (ftags n) in
    mkF (fk c) (fd c) (fv c) (fo c) (fdur n) (fmode c) (facc c) (famp c) (ftags c).

Definition note_copy_old (n : fnote) : fnote :=
  if is_rest_kind (fk n) then construct (fk n) Abs 0 0 (fdur n) None None DEFAULT_AMP (ftags n)
  else construct (fk n) (fd n) (fv n) (fo n) (fdur n) (fmode n) (facc n) (famp n) (ftags n).

(* Melody.copy, Chord.copy (same degree, figure, tonality and octave; every part copied), Score.copy *)
Definition melody_copy (m : melody) : melody := map note_copy m.
Definition fchord_copy (c : fchord) : fchord := mkFC (fc c) (map (fun p => (fst p, melody_copy (snd p))) (fparts c)).
Definition score_copy (s : list fchord) : list fchord := map fchord_copy s.
End Copy.

(* a rest or a continuation has no direction and value 0 (Silence.__init__ / Continuation.__init__; no method changes them) *)
Definition wf_note (n : fnote) : bool :=
  if is_rest_kind (fk n) then dir_eqb (fd n) Abs && (fv n =? 0) else true.

(* every field *)
Definition fnote_same (a b : fnote) : bool :=
  kind_eqb (fk a) (fk b) && dir_eqb (fd a) (fd b) && (fv a =? fv b) && (fo a =? fo b) && Qeq_bool (fdur a) (fdur b) &&
  option_eqb mode_eqb (fmode a) (fmode b) && option_eqb acc_eqb (facc a) (facc b) && Qeq_bool (famp a) (famp b) &&
  list_eqb String.eqb (ftags a) (ftags b).

(* correspondence: (the fields of a live note, the fields of its .copy()) *)
Definition check_note_copy (x : fnote * fnote) : bool :=
  let '(n, c) := x in fnote_same (note_copy (fun q => q) n) c.

(* Model of the re-voicing tools (C19):
   - voice_leading.VoiceLeading: find_optimal_octaves (octave normalisation with the
     compensation of fixed voices), get_score / get_corrected_note (value + delta folded
     back into the note system), get_pitch_solution (the optimiser's own pitch formula).
     The optimiser's SEARCH (numpy random walk) is not modelled: its result, the delta
     matrix, is an input of the model (read from the implementation by the harness).
   - Chord.get_parsimonious_voice_leading / Score.get_parsimonious_voice_leading.
   - counterpoint: get_array, convert_array_to_melody, interval / scorer (in half points),
     the choice of a delta is an input; the checker requires it to maximise the model's score. *)
From ML Require Import Model.Types gen.Tables Model.Pitch Model.Ext Model.Ton Model.Rel Model.Render Model.Slice Model.Renote.
Open Scope Z_scope.
Open Scope list_scope.

(* ================= VoiceLeading ================= *)
Definition bass_pitch (c : chord) : option Z :=
  do ep <- chord_extension_pitches c ;; match ep with [] => None | b :: _ => Some b end.

(* new_chord.score[voice] = compensate(new_chord.score[voice], k) for the fixed voices whose octave must not change;
   a fixed voice absent from the chord is a KeyError *)
Fixpoint set_part (nm : string) (f : list tnote -> list tnote) (ps : list (string * list tnote)) : option (list (string * list tnote)) :=
  match ps with
  | [] => None
  | (k, v) :: r => if String.eqb nm k then Some ((k, f v) :: r) else do r' <- set_part nm f r ;; Some ((k, v) :: r')
  end.

Fixpoint compensate_fixed (keep : list string) (k : Z) (ps : list (string * list tnote)) : option (list (string * list tnote)) :=
  match keep with
  | [] => Some ps
  | nm :: r => do ps' <- set_part nm (fun m => compensate m k) ps ;; compensate_fixed r k ps'
  end.

(* keep = the fixed voices with change_octave_fixed False *)
Fixpoint vl_normalise (fuel : nat) (keep : list string) (c : rchord) : option rchord :=
  match fuel with
  | O => None
  | S f =>
      do bass <- bass_pitch (rc c) ;;
      if 6 <? bass then do ps <- compensate_fixed keep 1 (rparts c) ;; vl_normalise f keep (mkRC (chord_o (rc c) (-1)) ps)
      else if bass <=? -6 then do ps <- compensate_fixed keep (-1) (rparts c) ;; vl_normalise f keep (mkRC (chord_o (rc c) 1) ps)
      else Some c
  end.

Definition vl_normalise_score (keep : list string) (s : rscore) : option rscore := omap (vl_normalise 64 keep) s.

(* size of the note system the optimiser walks in: len(candidates[type]) *)
Definition cand_len (c : chord) (k : kind) : option Z :=
  match k with
  | KB => option_map zlen (chord_extension_pitches c)
  | KC => option_map zlen (chord_pitches c)
  | KS => option_map zlen (chord_scale c)
  | KH | KA => Some 12
  | _ => None
  end.

(* get_corrected_note : val = new_val % nb, octave += new_val // nb *)
Definition fold_note (nb : Z) (n : pnote) (d : Z) : pnote :=
  let v := pval n + d in mkP (pkind n) (pdir n) (v mod nb) (poct n + v / nb) (pmode n) (pacc n).

Definition correct_first (c : chord) (n : tnote) (d : Z) : option tnote :=
  match pkind (tn n) with
  | KR | KL => Some n
  | k => do nb <- cand_len c k ;;
         if nb =? 0 then None else Some (mkTN (fold_note nb (tn n) d) (tdur n) (tamp n))
  end.

Definition correct_part (c : chord) (m : list tnote) (d : Z) : option (list tnote) :=
  match m with
  | [] => None                                (* notes[0] of an empty melody *)
  | n :: r => do n' <- correct_first c n d ;; Some (n' :: r)
  end.

(* ds : one delta per part of the chord, in the order of the parts *)
Fixpoint correct_parts (c : chord) (ps : list (string * list tnote)) (ds : list Z) : option (list (string * list tnote)) :=
  match ps, ds with
  | [], [] => Some []
  | (k, m) :: r, d :: dr => do m' <- correct_part c m d ;; do r' <- correct_parts c r dr ;; Some ((k, m') :: r')
  | _, _ => None
  end.

Definition vl_apply_chord (c : rchord) (ds : list Z) : option rchord :=
  do ps <- correct_parts (rc c) (rparts c) ds ;; Some (mkRC (rc c) ps).

Fixpoint vl_apply (s : rscore) (dss : list (list Z)) : option rscore :=
  match s, dss with
  | [], [] => Some []
  | c :: r, ds :: dr => do c' <- vl_apply_chord c ds ;; do r' <- vl_apply r dr ;; Some (c' :: r')
  | _, _ => None
  end.

(* get_pitch_solution : candidates[new_val % nb] + 12 * (new_val // nb) + 12 * octave, what the optimiser believes the pitch is *)
Definition cand_list (c : chord) (k : kind) : option (list Z) :=
  match k with
  | KB => chord_extension_pitches c
  | KC => chord_pitches c
  | KS => chord_scale c
  | KH => do sp <- chord_scale c ;; Some (range12 (znth sp 0))
  | KA => Some (range12 0)
  | _ => None
  end.

Definition pitch_solution (c : chord) (n : pnote) (d : Z) : option Z :=
  do cl <- cand_list c (pkind n) ;;
  let nb := zlen cl in
  if nb =? 0 then None else Some (znth cl ((pval n + d) mod nb) + 12 * ((pval n + d) / nb) + 12 * poct n).

(* the deltas of the fixed voices are zero *)
Fixpoint fixed_zero (fixed : list string) (ps : list (string * list tnote)) (ds : list Z) : bool :=
  match ps, ds with
  | (k, _) :: r, d :: dr => (negb (existsb (String.eqb k) fixed) || (d =? 0)) && fixed_zero fixed r dr
  | _, _ => true
  end.

(* ================= parsimonious chord voice leading ================= *)
(* Python round(a / b), b > 0 : to nearest, ties to even *)
Definition round_half_even (a b : Z) : Z :=
  let q := a / b in let r := a mod b in
  if 2 * r <? b then q else if b <? 2 * r then q + 1 else if Z.even q then q else q + 1.

Inductive direction := DNone | DUp | DDown.

Definition parsimonious (root : Z) (cand : chord) (d : direction) : option chord :=
  do cn <- chord_pitches cand ;;
  let nb := zlen cn in
  let f0 := mkC (celem cand) (cext cand) (mkT (tdeg (cton cand)) (tmode (cton cand)) 0) 0 in
  do f1 <- to_root_extension f0 ;;
  do other <- bass_pitch f1 ;;
  let tr := other - root in
  let off := round_half_even tr 12 in
  let nt := tr - off * 12 in
  let f2 := chord_o f1 (- off) in
  let k := - round_half_even (nb * nt) 12 in
  do f3 <- invert f2 k ;;
  let f4 := if k <? 0 then chord_o f3 (-1) else f3 in
  do b4 <- bass_pitch f4 ;;
  match d with
  | DDown =>
      if root <? b4 then
        do idx <- get_inversion_index f4 ;; do f5 <- invert f4 (-1) ;;
        Some (if idx - 1 <? 0 then chord_o f5 (-1) else f5)
      else Some f4
  | DUp =>
      if b4 <? root then
        do idx <- get_inversion_index f4 ;; do f5 <- invert f4 1 ;;
        Some (if nb - 1 <? idx + 1 then chord_o f5 1 else f5)
      else Some f4
  | DNone => Some f4
  end.

(* Score.get_parsimonious_voice_leading : the first chord is kept, each following chord is led from the previous RESULT
   (or from the first chord when from_first); one direction per following chord; the parts travel with their chord *)
Fixpoint pars_from (from_first : bool) (prev : chord) (dirs : list direction) (cs : list rchord) : option (list rchord) :=
  match cs, dirs with
  | [], [] => Some []
  | c :: r, d :: dr =>
      do root <- bass_pitch prev ;;
      do c' <- parsimonious root (rc c) d ;;
      do r' <- pars_from from_first (if from_first then prev else c') dr r ;;
      Some (mkRC c' (rparts c) :: r')
  | _, _ => None
  end.

Definition pars_score (from_first : bool) (dirs : list direction) (s : rscore) : option rscore :=
  match s with
  | [] => None
  | c :: r => do r' <- pars_from from_first (rc c) dirs r ;; Some (c :: r')
  end.

(* ================= counterpoint ================= *)
Definition is_pitched_note (n : tnote) : bool := negb (is_rest n || is_cont n).

(* get_array : diatonic height val + 7 * octave of the notes, None for rests and continuations *)
Definition cp_array (v : list tnote) : list (option Z) :=
  map (fun n => if is_pitched_note n then Some (pval (tn n) + 7 * poct (tn n)) else None) v.

(* convert_array_to_melody : a note becomes the scale note of that height; durations, dynamics, rests and
   continuations are copied *)
Definition cp_note (n : tnote) (h : option Z) : option tnote :=
  if is_pitched_note n then
    match h with
    | Some x => Some (mkTN (mkP KS Abs (x mod 7) (x / 7) (pmode (tn n)) (pacc (tn n))) (tdur n) (tamp n))
    | None => None                                    (* None // 7 *)
    end
  else Some n.

Fixpoint cp_convert (v : list tnote) (hs : list (option Z)) : option (list tnote) :=
  match v, hs with
  | [], _ => Some []
  | n :: r, h :: hr => do n' <- cp_note n h ;; do r' <- cp_convert r hr ;; Some (n' :: r')
  | _ :: _, [] => None
  end.

(* interval(n1, n2) = |n2 - n1| % 7 *)
Definition cp_interval (a b : Z) : Z := Z.abs (b - a) mod 7.
Definition authorized (i : Z) : bool := existsb (Z.eqb i) [0; 2; 3; 4; 5].
Definition forbidden_parallel (i : Z) : bool := existsb (Z.eqb i) [0; 4; 3; 7].
Definition is_triton (a b : Z) : bool :=
  ((a mod 7 =? 3) && (b mod 7 =? 6)) || ((a mod 7 =? 6) && (b mod 7 =? 3)).

Definition count {A} (f : A -> bool) (l : list A) : Z := zlen (filter f l).

(* scorer, in half points (the code's score is this / 2).  subj : the subjects' heights under this note; lastint : the last
   interval kept with each subject; lastnote : the previous chosen height *)
Definition cp_score (subj : list (option Z)) (lastint : list (option Z)) (lastnote : option Z) (note delta : Z) : Z :=
  let cand := note + delta in
  let sounding := flat_map (fun s => match s with Some x => [x] | None => [] end) subj in
  let pairs := flat_map (fun si => match si with (Some s, Some i) => [(s, i)] | _ => [] end) (combine subj lastint) in
  let diss := count (fun s => negb (authorized (cp_interval cand s))) sounding in
  let par := count (fun si => forbidden_parallel (cp_interval (fst si) cand) && (snd si =? cp_interval (fst si) cand)) pairs in
  let pard := count (fun si => negb (authorized (cp_interval cand (fst si))) && negb (authorized (snd si))) pairs in
  let tri := count (fun s => is_triton cand s) sounding in
  let same := match lastnote with Some l => if cand =? l then 1 else 0 | None => 0 end in
  20 - 6 * diss - 4 * tri - 8 * par - 8 * pard - Z.abs delta - 4 * same.

Definition cp_deltas : list Z := [0; 1; -1; 2; -2; 3; -3; 4; -4].

Definition cp_best (subj lastint : list (option Z)) (lastnote : option Z) (note delta : Z) : bool :=
  existsb (Z.eqb delta) cp_deltas &&
  forallb (fun d' => cp_score subj lastint lastnote note d' <=? cp_score subj lastint lastnote note delta) cp_deltas.

(* one step of get_counterpoint: the new last intervals (interval(s, chosen, replace=old)) *)
Definition cp_next_int (subj lastint : list (option Z)) (chosen : Z) : list (option Z) :=
  map (fun si => match fst si with
                 | Some s => Some (cp_interval s chosen)
                 | None => match snd si with Some 0 => None | o => o end     (* `if replace:` drops a 0 *)
                 end) (combine subj lastint).

(* the whole voice: cols = per note the subjects' heights; chosen = the heights the implementation returned.
   Accepts iff every pitched note moved by a best delta of the model's scorer and the rest of the state evolves as in
   get_counterpoint. *)
Fixpoint cp_run (arr : list (option Z)) (cols : list (list (option Z))) (chosen : list (option Z))
                (lastint : list (option Z)) (lastnote : option Z) : bool :=
  match arr, cols, chosen with
  | [], _, [] => true
  | None :: ar, _ :: cr, None :: hr => cp_run ar cr hr lastint lastnote
  | Some n :: ar, col :: cr, Some h :: hr =>
      cp_best col lastint lastnote n (h - n) && cp_run ar cr hr (cp_next_int col lastint h) (Some h)
  | _, _, _ => false
  end.

(* ---- correspondence checkers ---- *)
Definition dir_of (z : Z) : direction := if z =? 1 then DUp else if z =? 2 then DDown else DNone.

(* (score, keep, fixed, normalised score, deltas per chord, final score) *)
Definition check_vl (x : rscore * list string * list string * option (rscore * list (list Z) * rscore)) : bool :=
  let '(s, keep, fixed, r) := x in
  match vl_normalise_score keep s, r with
  | None, None => true
  | Some n, Some (n', dss, out) =>
      rscore_eqb n n' &&
      forallb (fun cd => fixed_zero fixed (rparts (fst cd)) (snd cd)) (combine n dss) &&
      option_eqb rscore_eqb (vl_apply n dss) (Some out)
  | _, _ => false
  end.

(* (score, from_first, directions (0 none, 1 up, 2 down), result) *)
Definition check_pars (x : rscore * bool * list Z * option rscore) : bool :=
  let '(s, ff, ds, r) := x in option_eqb rscore_eqb (pars_score ff (map dir_of ds) s) r.

(* (voice, subject columns, chosen heights, resulting melody) *)
Definition check_cp (x : list tnote * list (list (option Z)) * list (option Z) * option (list tnote)) : bool :=
  let '(v, cols, chosen, r) := x in
  let nsub := match cols with c :: _ => length c | [] => O end in
  cp_run (cp_array v) cols chosen (repeat None nsub) None &&
  option_eqb (list_eqb tnote_eqb) (cp_convert v chosen) r.
Definition check_cps (l : list (list tnote * list (list (option Z)) * list (option Z) * option (list tnote))) : bool :=
  forallb check_cp l.

(* Model of time slicing (integer ticks): time_utils.get_melody_between,
   get_chord_between, get_score_between, repeat_until_duration, Score.__mul__/__add__. *)
From ML Require Import Model.Types gen.Tables Model.Pitch Model.Rel Model.Render.
Open Scope Z_scope.
Open Scope list_scope.

Definition continuation (d : Z) : tnote := mkTN (mkP KL Abs 0 0 None None) d 66.
Definition silence (d : Z) : tnote := mkTN (mkP KR Abs 0 0 None None) d 66.
Definition with_dur (n : tnote) (d : Z) : tnote := mkTN (tn n) d (tamp n).

(* get_melody_between: None = 'negative duration' exception *)
Fixpoint mel_between (v : list tnote) (time start end_ : Z) : option (list tnote) :=
  match v with
  | [] => Some []
  | note :: rest =>
      let d := tdur note in
      if end_ <=? time then Some []
      else if (time <? start) && (time + d <=? start) then mel_between rest (time + d) start end_
      else
        let to_break := end_ <=? time + d in
        let d1 := if to_break then end_ - time else d in
        let cut := time <? start in
        let d2 := if cut then d1 - (start - time) else d1 in
        let time2 := if cut then start else time in
        let n' := if cut then continuation d2 else with_dur note d1 in
        if d2 <? 0 then None
        else if to_break then Some [n']
        else do r <- mel_between rest (time2 + d2) start end_ ;; Some (n' :: r)
  end.

Fixpoint omap_parts (f : list tnote -> option (list tnote)) (ps : list (string * list tnote))
  : option (list (string * list tnote)) :=
  match ps with
  | [] => Some []
  | (k, v) :: r => do v' <- f v ;; do r' <- omap_parts f r ;; Some ((k, v') :: r')
  end.

(* Chord.__call__ rebuilds a drums part note by note: an empty one becomes None and is
   dropped by the copy that follows *)
Definition drop_empty_drums (ps : list (string * list tnote)) : list (string * list tnote) :=
  filter (fun kv => negb (String.prefix "drums" (fst kv) && match snd kv with [] => true | _ => false end)) ps.

(* get_chord_between (complete_if_missing = False) *)
Definition chord_between (c : rchord) (start end_ : Z) : option rchord :=
  match rparts c with
  | [] => Some (mkRC (rc c) [("piano__0"%string, [silence (end_ - start)])])
  | ps => do ps' <- omap_parts (fun v => mel_between v 0 start end_) ps ;; Some (mkRC (rc c) (drop_empty_drums ps'))
  end.

(* get_score_between: the returned list is [] when the python function returns None *)
Fixpoint score_between (s : rscore) (time start end_ : Z) : option rscore :=
  match s with
  | [] => Some []
  | c :: r =>
      let cs := time in
      let ce := time + rchord_dur c in
      if ce <=? start then score_between r ce start end_
      else if end_ <=? cs then Some []
      else if (ce <? end_) && (start <=? cs) then
        do r' <- score_between r ce start end_ ;; Some (c :: r')
      else
        do c' <- chord_between c (start - time) (end_ - time) ;;
        do r' <- score_between r ce start end_ ;; Some (c' :: r')
  end.

Definition score_dur (s : rscore) : Z := fold_left (fun a c => a + rchord_dur c) s 0.

Fixpoint repeat_score (s : rscore) (k : nat) : rscore :=
  match k with O => [] | S k' => s ++ repeat_score s k' end.

(* repeat_until_duration; int(duration / score.duration) = floor for positive values *)
Definition repeat_until (s : rscore) (d : Z) : option rscore :=
  let total := score_dur s in
  if total <? d then
    if total =? 0 then None                                   (* ZeroDivisionError *)
    else score_between (repeat_score s (Z.to_nat (d / total + 1))) 0 0 d
  else score_between s 0 0 d.

(* ---- correspondence checkers ---- *)
Definition tnote_eqb (a b : tnote) : bool :=
  pn_eqb (tn a) (tn b) && option_eqb (fun x y => match x, y with
     | AMin, AMin | AMaj, AMaj | ANat, ANat | ADim, ADim | AAug, AAug => true | _, _ => false end) (pacc (tn a)) (pacc (tn b))
  && (tdur a =? tdur b) && (tamp a =? tamp b).
Definition parts_eqb (a b : list (string * list tnote)) : bool :=
  list_eqb (fun x y => String.eqb (fst x) (fst y) && list_eqb tnote_eqb (snd x) (snd y)) a b.
Definition chord_fields_eqb (a b : chord) : bool :=
  (celem a =? celem b) && (tdeg (cton a) =? tdeg (cton b)) && mode_eqb (tmode (cton a)) (tmode (cton b)) &&
  (toct (cton a) =? toct (cton b)) && (coct a =? coct b) && String.eqb (fig (cext a)) (fig (cext b)).
Definition rchord_eqb (a b : rchord) : bool := chord_fields_eqb (rc a) (rc b) && parts_eqb (rparts a) (rparts b).
Definition rscore_eqb := list_eqb rchord_eqb.

Definition check_melody_between (x : list tnote * Z * Z * option (list tnote)) : bool :=
  let '(v, s, e, r) := x in option_eqb (list_eqb tnote_eqb) (mel_between v 0 s e) r.
Definition check_score_between (x : rscore * Z * Z * option rscore) : bool :=
  let '(sc, s, e, r) := x in option_eqb rscore_eqb (score_between sc 0 s e) r.
Definition check_repeat_until (x : rscore * Z * option rscore) : bool :=
  let '(sc, d, r) := x in option_eqb rscore_eqb (repeat_until sc d) r.

(* Object-graph model for immutability (C06).
   Objects live in a heap of cells addressed by position; allocation appends.  Every modelled public operation is
   described by its HEAP EFFECT: which cells of the result are fresh copies and which are shared with the operands
   (concatenation and slicing share note objects, Score(list) / score + chord / score[i] share chord objects, everything
   else deep-copies), and the in-place editors of the library (VoiceLeading.get_score: copy, then assign fields of the
   copy) are modelled as a deep copy followed by writes.  The theorems (Proofs/HeapProofs.v) say that along ANY program
   no cell that existed before a step is changed by it, so every object keeps its deep value for ever.
   The correspondence check runs the same programs on the library and compares the canonical form (depth-first numbering
   from the pool of results, which captures sharing exactly) of the two object graphs after every program. *)
From ML Require Import Model.Types gen.Tables Model.Pitch Model.Code.
From Coq Require Import QArith.
Open Scope Z_scope.
Open Scope list_scope.

Inductive cell :=
| CNote (n : fnote)
| CMel (ns : list nat)
| CTon (t : tonality)
| CChord (e : Z) (x : string) (t : nat) (o : Z) (parts : list (string * nat))
| CScore (cs : list nat).

Definition heap := list cell.
Record state := mkSt { hp : heap; pool : list nat }.

Definition alloc (h : heap) (c : cell) : heap * nat := (h ++ [c], length h).

(* note-level updates of the copying methods *)
Inductive upd := UCopy | UOct (k : Z) | UDur (q : Q) | UAmp (a : Q) | UTag (s : string).

Definition apply_upd (u : upd) (n : fnote) : fnote :=
  match u with
  | UCopy => n
  | UOct k => match fk n, fd n with
              | (KS | KH | KC | KB | KA | KX), Abs => mkF (fk n) (fd n) (fv n) (fo n + k) (fdur n) (fmode n) (facc n) (famp n) (ftags n)
              | _, _ => n
              end
  | UDur q => mkF (fk n) (fd n) (fv n) (fo n) (Qred (fdur n * q)) (fmode n) (facc n) (famp n) (ftags n)
  | UAmp a => mkF (fk n) (fd n) (fv n) (fo n) (fdur n) (fmode n) (facc n) a (ftags n)
  | UTag s => mkF (fk n) (fd n) (fv n) (fo n) (fdur n) (fmode n) (facc n) (famp n)
                  (if existsb (String.eqb s) (ftags n) then ftags n else ftags n ++ [s])
  end.

(* chord-level updates *)
Inductive cupd := CUCopy | CUOct (k : Z) | CUExt (x : string) | CUTon (t : tonality).

(* ---- deep copies (fresh cells only) ---- *)
Definition get (h : heap) (a : nat) : option cell := nth_error h a.

Fixpoint copy_notes (h : heap) (u : upd) (ns : list nat) : option (heap * list nat) :=
  match ns with
  | [] => Some (h, [])
  | a :: r => match get h a with
              | Some (CNote n) => let (h1, a') := alloc h (CNote (apply_upd u n)) in
                                  do x <- copy_notes h1 u r ;; Some (fst x, a' :: snd x)
              | _ => None
              end
  end.

Definition copy_mel (h : heap) (u : upd) (a : nat) : option (heap * nat) :=
  match get h a with
  | Some (CMel ns) => do x <- copy_notes h u ns ;; Some (alloc (fst x) (CMel (snd x)))
  | _ => None
  end.

Fixpoint copy_parts (h : heap) (u : upd) (ps : list (string * nat)) : option (heap * list (string * nat)) :=
  match ps with
  | [] => Some (h, [])
  | (nm, a) :: r => do x <- copy_mel h u a ;; do y <- copy_parts (fst x) u r ;; Some (fst y, (nm, snd x) :: snd y)
  end.

Definition apply_cupd (cu : cupd) (e : Z) (x : string) (t : tonality) (o : Z) : Z * string * tonality * Z :=
  match cu with
  | CUCopy => (e, x, t, o)
  | CUOct k => (e, x, t, o + k)
  | CUExt x' => (e, x', t, o)
  | CUTon t' => (e, x, t', o)
  end.

(* Chord.copy(): a fresh tonality, fresh melodies with fresh notes, then the fresh chord *)
Definition copy_chord (h : heap) (cu : cupd) (u : upd) (a : nat) : option (heap * nat) :=
  match get h a with
  | Some (CChord e x t o ps) =>
      match get h t with
      | Some (CTon tv) =>
          let '(e', x', tv', o') := apply_cupd cu e x tv o in
          let (h1, t') := alloc h (CTon tv') in
          do y <- copy_parts h1 u ps ;;
          Some (alloc (fst y) (CChord e' x' t' o' (snd y)))
      | _ => None
      end
  | _ => None
  end.

Fixpoint copy_chords (h : heap) (u : upd) (cs : list nat) : option (heap * list nat) :=
  match cs with
  | [] => Some (h, [])
  | a :: r => do x <- copy_chord h CUCopy u a ;; do y <- copy_chords (fst x) u r ;; Some (fst y, snd x :: snd y)
  end.

Definition notes_of (h : heap) (a : nat) : option (list nat) :=
  match get h a with
  | Some (CNote _) => Some [a]
  | Some (CMel ns) => Some ns
  | _ => None
  end.

Fixpoint set_cell (h : heap) (a : nat) (c : cell) : heap :=
  match h, a with
  | [], _ => []
  | _ :: r, O => c :: r
  | x :: r, S a' => x :: set_cell r a' c
  end.

(* ---- operations ---- *)
Inductive op :=
| NewNote (n : fnote)                         (* Note(...) *)
| NewTon (t : tonality)
| NewChord (e : Z) (x : string) (t : nat) (o : Z)          (* Chord(e, extension, tonality=<object t>, octave): holds t itself *)
| NoteUpd (a : nat) (u : upd)                 (* n.o(k), n.augment(q), n.set_amp, n.add_tag, n.copy(): a fresh note *)
| Concat (a b : nat)                          (* x + y on notes / melodies: a fresh melody SHARING the notes *)
| MelMap (a : nat) (u : upd)                  (* m.o(k), m.augment(q), m.copy(), m.to_melody(): fresh notes *)
| MelRepeat (a : nat) (k : nat)               (* m * k: ONE fresh copy of each note, listed k times *)
| MelSlice (a : nat) (i j : nat)              (* m[i:j]: a fresh melody SHARING the notes *)
| NoteToMelody (a : nat)                      (* n.to_melody(): a fresh melody SHARING the note *)
| ChordCall (c : nat) (ps : list (string * nat))           (* c(name=melody, ...): fresh chord, tonality and melodies *)
| ChordUpd (c : nat) (cu : cupd)              (* c.o(k), c[ext], c % t, c.copy() *)
| ChordAdd (a b : nat)                        (* c1 + c2: a score of fresh copies *)
| ScoreOf (cs : list nat)                     (* Score([c, ...]): SHARES the chords *)
| ScoreAddChord (s c : nat)                   (* s + c: fresh copies of the chords of s, then c ITSELF *)
| ScoreAddScore (s t : nat)                   (* s + t: fresh copies of everything *)
| ScoreIndex (s : nat) (i : nat)              (* s[i]: the chord object itself *)
| ScoreSlice (s : nat) (i j : nat)            (* s[i:j]: fresh copies of all chords but the last, which is SHARED *)
| ScoreMap (s : nat) (u : upd)                (* s.copy(), s.to_score(), s.set_amp(a): fresh copies *)
| ScoreRepeat (s : nat) (k : nat)             (* s * k: k fresh copies of every chord, one after the other (also for k = 1) *)
| ChordRepeat (c : nat) (k : nat)             (* c * k: a score of k fresh copies of the chord *)
| NoteRepeat (a : nat) (k : nat)              (* n * k: a melody of k fresh copies of the note *)
| EditFirstNotes (s : nat) (vals : list (list (Z * Z))). (* VoiceLeading.get_score: copy the score, then ASSIGN val/octave of the
                                                            first note of each part of the copy (one (val, octave) per part) *)

Definition sublist {A} (i j : nat) (l : list A) : list A := firstn (j - i) (skipn i l).

(* the writes of get_corrected_note on the copy *)
(* base = size of the heap before the copy: the editor writes into the copy only; a write below base is refused (None), and the
   correspondence check shows the library never needs one *)
Fixpoint edit_parts (base : nat) (h : heap) (ps : list (string * nat)) (vs : list (Z * Z)) : option heap :=
  match ps, vs with
  | [], [] => Some h
  | (_, m) :: r, (v, o) :: vr =>
      match get h m with
      | Some (CMel (a :: _)) =>
          match get h a with
          | Some (CNote n) =>
              if negb (Nat.leb base a) then None else
              let n' := match fk n with
                        | KR | KL => n
                        | _ => mkF (fk n) (fd n) v o (fdur n) (fmode n) (facc n) (famp n) (ftags n)
                        end in
              edit_parts base (set_cell h a (CNote n')) r vr
          | _ => None
          end
      | _ => None
      end
  | _, _ => None
  end.

Fixpoint edit_chords (base : nat) (h : heap) (cs : list nat) (vss : list (list (Z * Z))) : option heap :=
  match cs, vss with
  | [], [] => Some h
  | c :: r, vs :: vr =>
      match get h c with
      | Some (CChord _ _ _ _ ps) => do h1 <- edit_parts base h ps vs ;; edit_chords base h1 r vr
      | _ => None
      end
  | _, _ => None
  end.

Definition step_heap (h : heap) (o : op) : option (heap * nat) :=
  match o with
  | NewNote n => Some (alloc h (CNote n))
  | NewTon t => Some (alloc h (CTon t))
  | NewChord e x t o' => match get h t with Some (CTon _) => Some (alloc h (CChord e x t o' [])) | _ => None end
  | NoteUpd a u => match get h a with Some (CNote n) => Some (alloc h (CNote (apply_upd u n))) | _ => None end
  | Concat a b => do na <- notes_of h a ;; do nb <- notes_of h b ;; Some (alloc h (CMel (na ++ nb)))
  | MelMap a u => copy_mel h u a
  | MelRepeat a k => match get h a with
                     | Some (CMel ns) => do x <- copy_notes h UCopy ns ;; Some (alloc (fst x) (CMel (concat (repeat (snd x) k))))
                     | _ => None
                     end
  | MelSlice a i j => match get h a with Some (CMel ns) => Some (alloc h (CMel (sublist i j ns))) | _ => None end
  | NoteToMelody a => match get h a with Some (CNote _) => Some (alloc h (CMel [a])) | _ => None end
  | ChordCall c ps =>
      match get h c with
      | Some (CChord e x t o' _) =>
          match get h t with
          | Some (CTon tv) => let (h1, t') := alloc h (CTon tv) in
                              do y <- copy_parts h1 UCopy ps ;; Some (alloc (fst y) (CChord e x t' o' (snd y)))
          | _ => None
          end
      | _ => None
      end
  | ChordUpd c cu => copy_chord h cu UCopy c
  | ChordAdd a b => do x <- copy_chord h CUCopy UCopy a ;; do y <- copy_chord (fst x) CUCopy UCopy b ;;
                    Some (alloc (fst y) (CScore [snd x; snd y]))
  | ScoreOf cs => if forallb (fun c => match get h c with Some (CChord _ _ _ _ _) => true | _ => false end) cs
                  then Some (alloc h (CScore cs)) else None
  | ScoreAddChord s c =>
      match get h s, get h c with
      | Some (CScore cs), Some (CChord _ _ _ _ _) => do x <- copy_chords h UCopy cs ;; Some (alloc (fst x) (CScore (snd x ++ [c])))
      | _, _ => None
      end
  | ScoreAddScore s t =>
      match get h s, get h t with
      | Some (CScore cs), Some (CScore ct) =>
          do x <- copy_chords h UCopy cs ;; do y <- copy_chords (fst x) UCopy ct ;; Some (alloc (fst y) (CScore (snd x ++ snd y)))
      | _, _ => None
      end
  | ScoreIndex s i => match get h s with Some (CScore cs) => do c <- nth_error cs i ;; Some (h, c) | _ => None end
  | ScoreSlice s i j =>
      (* sum(chords[i:j], None): every partial sum copies what it has and appends the next chord ITSELF, so all chords but the
         last are fresh copies and the last one is shared (a single chord is copied; an empty slice gives None) *)
      match get h s with
      | Some (CScore cs) =>
          match rev (sublist i j cs) with
          | [] => None
          | [c] => do x <- copy_chords h UCopy [c] ;; Some (alloc (fst x) (CScore (snd x)))
          | last :: front => do x <- copy_chords h UCopy (rev front) ;; Some (alloc (fst x) (CScore (snd x ++ [last])))
          end
      | _ => None
      end
  | ScoreMap s u => match get h s with
                    | Some (CScore cs) => do x <- copy_chords h u cs ;; Some (alloc (fst x) (CScore (snd x)))
                    | _ => None
                    end
  | ScoreRepeat s k =>
      (* sum([self.copy() for i in range(k)], None): every operand of the sum is a fresh copy and every partial sum copies again, so
         the result holds k independent fresh copies of each chord and shares nothing with s - for k = 1 (None + copy = a copy of the
         copy) as for the others; k = 0 gives an empty score *)
      match get h s with
      | Some (CScore cs) => do x <- copy_chords h UCopy (concat (repeat cs k)) ;; Some (alloc (fst x) (CScore (snd x)))
      | _ => None
      end
  | ChordRepeat c k =>
      match get h c with
      | Some (CChord _ _ _ _ _) => do x <- copy_chords h UCopy (repeat c k) ;; Some (alloc (fst x) (CScore (snd x)))
      | _ => None
      end
  | NoteRepeat a k =>
      match get h a with
      | Some (CNote _) => do x <- copy_notes h UCopy (repeat a k) ;; Some (alloc (fst x) (CMel (snd x)))
      | _ => None
      end
  | EditFirstNotes s vss =>
      match get h s with
      | Some (CScore cs) => do x <- copy_chords h UCopy cs ;;
                            do h2 <- edit_chords (length h) (fst x) (snd x) vss ;;
                            Some (alloc h2 (CScore (snd x)))
      | _ => None
      end
  end.

(* programs name their operands by their rank in the pool of results; resolve turns ranks into addresses *)
Definition resolve (pl : list nat) (o : op) : option op :=
  let ad := fun i => nth_error pl i in
  match o with
  | NewNote n => Some (NewNote n)
  | NewTon t => Some (NewTon t)
  | NewChord e x t o' => do t' <- ad t ;; Some (NewChord e x t' o')
  | NoteUpd a u => do a' <- ad a ;; Some (NoteUpd a' u)
  | Concat a b => do a' <- ad a ;; do b' <- ad b ;; Some (Concat a' b')
  | MelMap a u => do a' <- ad a ;; Some (MelMap a' u)
  | MelRepeat a k => do a' <- ad a ;; Some (MelRepeat a' k)
  | MelSlice a i j => do a' <- ad a ;; Some (MelSlice a' i j)
  | NoteToMelody a => do a' <- ad a ;; Some (NoteToMelody a')
  | ChordCall c ps => do c' <- ad c ;; do ps' <- omap (fun kv => do m <- ad (snd kv) ;; Some (fst kv, m)) ps ;; Some (ChordCall c' ps')
  | ChordUpd c cu => do c' <- ad c ;; Some (ChordUpd c' cu)
  | ChordAdd a b => do a' <- ad a ;; do b' <- ad b ;; Some (ChordAdd a' b')
  | ScoreOf cs => do cs' <- omap ad cs ;; Some (ScoreOf cs')
  | ScoreAddChord s c => do s' <- ad s ;; do c' <- ad c ;; Some (ScoreAddChord s' c')
  | ScoreAddScore s t => do s' <- ad s ;; do t' <- ad t ;; Some (ScoreAddScore s' t')
  | ScoreIndex s i => do s' <- ad s ;; Some (ScoreIndex s' i)
  | ScoreSlice s i j => do s' <- ad s ;; Some (ScoreSlice s' i j)
  | ScoreMap s u => do s' <- ad s ;; Some (ScoreMap s' u)
  | ScoreRepeat s k => do s' <- ad s ;; Some (ScoreRepeat s' k)
  | ChordRepeat c k => do c' <- ad c ;; Some (ChordRepeat c' k)
  | NoteRepeat a k => do a' <- ad a ;; Some (NoteRepeat a' k)
  | EditFirstNotes s vss => do s' <- ad s ;; Some (EditFirstNotes s' vss)
  end.

Definition step (st : state) (o : op) : option state :=
  do o' <- resolve (pool st) o ;;
  do r <- step_heap (hp st) o' ;; Some (mkSt (fst r) (pool st ++ [snd r])).

Fixpoint run (st : state) (p : list op) : option state :=
  match p with [] => Some st | o :: r => do st' <- step st o ;; run st' r end.

Definition init : state := mkSt [] [].

(* ---- canonical form of the object graph seen from the pool: depth-first numbering ---- *)
Inductive cnode :=
| NNote (n : fnote) | NMel (ns : list nat) | NTon (t : tonality)
| NChord (e : Z) (x : string) (t : nat) (o : Z) (ps : list (string * nat)) | NScore (cs : list nat).

(* visit: (numbering: list of (address, number)), nodes in number order (reversed) *)
Record cstate := mkCS { cmap : list (nat * nat); cnodes : list (nat * cnode) }.

Fixpoint lookup_addr (a : nat) (m : list (nat * nat)) : option nat :=
  match m with [] => None | (k, v) :: r => if Nat.eqb a k then Some v else lookup_addr a r end.

Fixpoint visit (fuel : nat) (h : heap) (a : nat) (cs : cstate) : option (cstate * nat) :=
  match lookup_addr a (cmap cs) with
  | Some k => Some (cs, k)
  | None =>
    match fuel with
    | O => None
    | S f =>
      let k := length (cmap cs) in
      let cs0 := mkCS ((a, k) :: cmap cs) (cnodes cs) in
      let visit_list := fix vl (l : list nat) (c : cstate) : option (cstate * list nat) :=
            match l with
            | [] => Some (c, [])
            | x :: r => do y <- visit f h x c ;; do z <- vl r (fst y) ;; Some (fst z, snd y :: snd z)
            end in
      match get h a with
      | Some (CNote n) => Some (mkCS (cmap cs0) ((k, NNote n) :: cnodes cs0), k)
      | Some (CTon t) => Some (mkCS (cmap cs0) ((k, NTon t) :: cnodes cs0), k)
      | Some (CMel ns) => do y <- visit_list ns cs0 ;; Some (mkCS (cmap (fst y)) ((k, NMel (snd y)) :: cnodes (fst y)), k)
      | Some (CScore l) => do y <- visit_list l cs0 ;; Some (mkCS (cmap (fst y)) ((k, NScore (snd y)) :: cnodes (fst y)), k)
      | Some (CChord e x t o ps) =>
          do yt <- visit f h t cs0 ;;
          do y <- visit_list (map snd ps) (fst yt) ;;
          Some (mkCS (cmap (fst y)) ((k, NChord e x (snd yt) o (combine (map fst ps) (snd y))) :: cnodes (fst y)), k)
      | None => None
      end
    end
  end.

Fixpoint visit_roots (h : heap) (roots : list nat) (cs : cstate) : option (cstate * list nat) :=
  match roots with
  | [] => Some (cs, [])
  | a :: r => do y <- visit (S (length h)) h a cs ;; do z <- visit_roots h r (fst y) ;; Some (fst z, snd y :: snd z)
  end.

(* (numbers of the pool entries, nodes sorted by number) *)
Fixpoint insert_node (x : nat * cnode) (l : list (nat * cnode)) : list (nat * cnode) :=
  match l with [] => [x] | y :: r => if Nat.leb (fst x) (fst y) then x :: l else y :: insert_node x r end.

Definition canon (st : state) : option (list nat * list cnode) :=
  do y <- visit_roots (hp st) (pool st) (mkCS [] []) ;;
  Some (snd y, map snd (fold_right insert_node [] (cnodes (fst y)))).

(* ---- correspondence checker ---- *)
Definition fnote_eqb (a b : fnote) : bool :=
  kind_eqb (fk a) (fk b) && dir_eqb (fd a) (fd b) && (fv a =? fv b) && (fo a =? fo b) && Qeq_bool (fdur a) (fdur b) &&
  option_eqb mode_eqb (fmode a) (fmode b) && option_eqb acc_eqb (facc a) (facc b) && Qeq_bool (famp a) (famp b) &&
  list_eqb String.eqb (ftags a) (ftags b).

Definition ton_eqb3 (a b : tonality) : bool := (tdeg a =? tdeg b) && mode_eqb (tmode a) (tmode b) && (toct a =? toct b).

Definition cnode_eqb (a b : cnode) : bool :=
  match a, b with
  | NNote x, NNote y => fnote_eqb x y
  | NMel x, NMel y => list_eqb Nat.eqb x y
  | NTon x, NTon y => ton_eqb3 x y
  | NChord e x t o ps, NChord e' x' t' o' ps' =>
      (e =? e') && String.eqb x x' && Nat.eqb t t' && (o =? o') &&
      list_eqb (fun p q => String.eqb (fst p) (fst q) && Nat.eqb (snd p) (snd q)) ps ps'
  | NScore x, NScore y => list_eqb Nat.eqb x y
  | _, _ => false
  end.

(* (program, canonical form of the library's object graph after running it) *)
Definition check_heap (x : list op * option (list nat * list cnode)) : bool :=
  let '(p, r) := x in
  option_eqb (fun a b => list_eqb Nat.eqb (fst a) (fst b) && list_eqb cnode_eqb (snd a) (snd b))
             (do st <- run init p ;; canon st) r.

(* Model of masks and of the dispatch of transformers: mask.py (call, child, ~ on
   And/Or/Gt/Bool/atoms), base_transformer.apply_on_score / apply_on_chord /
   apply_on_melody and the __call__ of Note/Melody/Chord transformers (and their
   filter variants).  Time in integer ticks.  Masks are built with & | ~ > from the
   Mask classmethods, so a negation only ever wraps an atom. *)
From ML Require Import Model.Types.
Open Scope Z_scope.
Open Scope list_scope.

Inductive level := LScore | LChord | LMelody | LNote.
Definition level_eqb (a b : level) : bool :=
  match a, b with LScore, LScore | LChord, LChord | LMelody, LMelody | LNote, LNote => true | _, _ => false end.

(* what a mask can see of the element it is called on (keyword arguments included, with their defaults) *)
Record obs := mkO {
  o_level : level; o_tags : list string; o_instr : option string;
  o_beat : Z; o_dur : Z; o_cbeat : Z; o_cdur : Z; o_mode : mode; o_degree : Z; o_ext : string; o_tdeg : Z }.

Inductive atom :=
  | AHas (tags : list string) | AHasAtLeast (tags : list string)
  | AInstr (names : list string)
  | ABeatIn (l : list Z) | ABeatBetween (a b : Z) | ADurIn (l : list Z) | ADurBetween (a b : Z) | ABeatPlayingIn (l : list Z)
  | AChordBeatIn (l : list Z) | AChordBeatBetween (a b : Z) | AChordDurIn (l : list Z) | AChordBeatPlayingIn (l : list Z)
  | AModeIn (l : list mode) | ADegreeIn (l : list Z) | AExtIn (l : list string) | ATonDegIn (l : list Z).

Definition mem_str (x : string) (l : list string) : bool := existsb (String.eqb x) l.
Definition mem_z (x : Z) (l : list Z) : bool := existsb (Z.eqb x) l.

Definition atom_call (a : atom) (o : obs) : bool :=
  match a with
  | AHas tags => forallb (fun t => mem_str t (o_tags o)) tags
  | AHasAtLeast tags => existsb (fun t => mem_str t (o_tags o)) tags
  | AInstr names => match o_instr o with Some i => mem_str i names | None => false end
  | ABeatIn l => mem_z (o_beat o) l
  | ABeatBetween a b => (a <=? o_beat o) && (o_beat o <? b)
  | ADurIn l => mem_z (o_dur o) l
  | ADurBetween a b => (a <=? o_dur o) && (o_dur o <? b)
  | ABeatPlayingIn l => existsb (fun b => (o_beat o <=? b) && (b <? o_beat o + o_dur o)) l
  | AChordBeatIn l => mem_z (o_cbeat o) l
  | AChordBeatBetween a b => (a <=? o_cbeat o) && (o_cbeat o <? b)
  | AChordDurIn l => mem_z (o_cdur o) l
  | AChordBeatPlayingIn l => existsb (fun b => (o_cbeat o <=? b) && (b <? o_cbeat o + o_cdur o)) l
  | AModeIn l => existsb (mode_eqb (o_mode o)) l
  | ADegreeIn l => mem_z (o_degree o) l
  | AExtIn l => mem_str (o_ext o) l
  | ATonDegIn l => mem_z (o_tdeg o) l
  end.

Inductive mask :=
  | MTrue                                  (* Mask() *)
  | MBool (b : bool)
  | MAtom (a : atom)
  | MNotAtom (a : atom)                    (* NotMask(atom) *)
  | MNotTrue                               (* NotMask(Mask()) *)
  | MAnd (a b : mask) | MOr (a b : mask)
  | MGt (lv : level) (m : mask).           (* TypeMask > m *)

Fixpoint call (m : mask) (o : obs) : bool :=
  match m with
  | MTrue => true
  | MBool b => b
  | MAtom a => atom_call a o
  | MNotAtom a => negb (atom_call a o)
  | MNotTrue => false
  | MAnd a b => call a o && call b o
  | MOr a b => call a o || call b o
  | MGt lv p => negb (level_eqb (o_level o) lv) || call p o
  end.

(* Mask.child(element): a guard whose level is the element's is frozen to its verdict *)
Fixpoint child (m : mask) (parent : obs) : mask :=
  match m with
  | MAnd a b => MAnd (child a parent) (child b parent)
  | MOr a b => MOr (child a parent) (child b parent)
  | MGt lv p => if level_eqb (o_level parent) lv then MBool (call m parent) else m
  | _ => m
  end.

(* ~ *)
Fixpoint invert (m : mask) : mask :=
  match m with
  | MTrue => MNotTrue
  | MBool b => MBool (negb b)
  | MAtom a => MNotAtom a
  | MNotAtom a => MAtom a                  (* not produced by the library's ~ (it would nest NotMask); kept involutive *)
  | MNotTrue => MTrue
  | MAnd a b => MOr (invert a) (invert b)
  | MOr a b => MAnd (invert a) (invert b)
  | MGt lv p => MGt lv (invert p)
  end.

(* ---- the score as the masks see it ---- *)
Record mnote := mkMN { mn_tags : list string; mn_dur : Z }.
Record mpart := mkMP { mp_name : string; mp_tags : list string; mp_notes : list mnote }.
Record mchord := mkMC { mc_tags : list string; mc_mode : mode; mc_degree : Z; mc_ext : string; mc_tdeg : Z; mc_parts : list mpart }.
Record mscore := mkMS { ms_tags : list string; ms_chords : list mchord }.

Definition mpart_dur (p : mpart) : Z := fold_left (fun a n => a + mn_dur n) (mp_notes p) 0.
Definition mchord_dur (c : mchord) : Z :=
  match mc_parts c with [] => 0 | p :: r => fold_left (fun a q => Z.max a (mpart_dur q)) r (mpart_dur p) end.

Definition obs_score (s : mscore) : obs := mkO LScore (ms_tags s) None 0 0 0 0 MMaj 0 ""%string 0.
Definition obs_chord (c : mchord) (cbeat : Z) : obs :=
  mkO LChord (mc_tags c) None 0 (mchord_dur c) cbeat (mchord_dur c) (mc_mode c) (mc_degree c) (mc_ext c) (mc_tdeg c).
Definition obs_part (c : mchord) (cbeat : Z) (p : mpart) : obs :=
  mkO LMelody (mp_tags p) (Some (mp_name p)) 0 (mpart_dur p) cbeat (mchord_dur c) (mc_mode c) (mc_degree c) (mc_ext c) (mc_tdeg c).
Definition obs_note (c : mchord) (cbeat : Z) (p : mpart) (n : mnote) (beat : Z) : obs :=
  mkO LNote (mn_tags n) (Some (mp_name p)) beat (mn_dur n) cbeat (mchord_dur c) (mc_mode c) (mc_degree c) (mc_ext c) (mc_tdeg c).

(* ---- dispatch: which elements receive the action (true) or the default (false);
        None = the whole container got the default ---- *)
Fixpoint sel_notes_in (on : mask) (c : mchord) (cbeat : Z) (p : mpart) (beat : Z) (ns : list mnote) : list bool :=
  match ns with
  | [] => []
  | n :: r => call on (obs_note c cbeat p n beat) :: sel_notes_in on c cbeat p (beat + mn_dur n) r
  end.

(* NoteTransformer on a chord: apply_on_chord then apply_on_melody *)
Definition sel_note_chord (on : mask) (c : mchord) (cbeat : Z) : list (option (list bool)) :=
  map (fun p => if call on (obs_part c cbeat p)
                then Some (sel_notes_in (child on (obs_chord c cbeat)) c cbeat p 0 (mp_notes p))
                else None) (mc_parts c).

Fixpoint sel_score {A} (f : mask -> mchord -> Z -> A) (on : mask) (so : obs) (cs : list mchord) (cbeat : Z) : list (option A) :=
  match cs with
  | [] => []
  | c :: r => (if call (child on so) (obs_chord c cbeat) then Some (f (child on so) c cbeat) else None)
              :: sel_score f on so r (cbeat + mchord_dur c)
  end.

Definition sel_note_score (on : mask) (s : mscore) := sel_score sel_note_chord on (obs_score s) (ms_chords s) 0.

(* MelodyTransformer on a chord / score *)
Definition sel_melody_chord (on : mask) (c : mchord) (cbeat : Z) : list bool :=
  map (fun p => call on (obs_part c cbeat p)) (mc_parts c).
Definition sel_melody_score (on : mask) (s : mscore) := sel_score sel_melody_chord on (obs_score s) (ms_chords s) 0.

(* ChordTransformer on a score *)
Definition sel_chord_score (on : mask) (s : mscore) : list bool :=
  map (fun x => match x with Some _ => true | None => false end)
      (sel_score (fun _ _ _ => tt) on (obs_score s) (ms_chords s) 0).

(* ---- correspondence checkers ---- *)
Definition check_sel_note (x : mask * mscore * list (option (list (option (list bool))))) : bool :=
  let '(m, s, r) := x in
  list_eqb (option_eqb (list_eqb (option_eqb (list_eqb Bool.eqb)))) (sel_note_score m s) r.
Definition check_sel_melody (x : mask * mscore * list (option (list bool))) : bool :=
  let '(m, s, r) := x in list_eqb (option_eqb (list_eqb Bool.eqb)) (sel_melody_score m s) r.
Definition check_sel_chord (x : mask * mscore * list bool) : bool :=
  let '(m, s, r) := x in list_eqb Bool.eqb (sel_chord_score m s) r.
Definition check_call (x : mask * obs * bool) : bool :=
  let '(m, o, r) := x in Bool.eqb (call m o) r.

(* The printed form of a tag set: Note.to_code lists the tags in sorted order (sorted(repr(tag) for tag in tags)).  For tags made
   of printable ASCII characters without quotes or backslashes repr(t) is 't', so the order is that of the strings t' (the closing
   quote takes part in the comparison: 'a!' comes before 'a'), character codes compared left to right. *)
From Coq Require Import List String Ascii Bool.
Import ListNotations.

Definition tag_key (x : string) : string := (x ++ "'")%string.

Fixpoint insert_tag (x : string) (l : list string) : list string :=
  match l with
  | [] => [x]
  | y :: r => if String.leb (tag_key x) (tag_key y) then x :: l else y :: insert_tag x r
  end.

Fixpoint sort_tags (l : list string) : list string :=
  match l with [] => [] | x :: r => insert_tag x (sort_tags r) end.

Definition check_sort_tags (x : list string * list string) : bool :=
  let '(l, r) := x in
  (fix eqb (a b : list string) := match a, b with [] , [] => true | u :: a', v :: b' => String.eqb u v && eqb a' b' | _, _ => false end)
    (sort_tags l) r.

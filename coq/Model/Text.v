(* Model of the text form (C05): Note.to_code / Melody.to_code / Chord.to_code / Tonality.to_code / Score.__repr__ as
   structured text (a base library symbol followed by attribute accesses and calls), its rendering to the exact string
   the code prints, and the evaluation of that text by the attribute protocol (Note.__getattr__, NoteProperties, o, oabs,
   augment, set_amp, add_tags; Element.__getitem__/b/s/<mode>, Tonality.o, Chord.__mod__/o/__call__).
   Python's own lexer/parser (eval) is not modelled: the tie is the string equality printer <-> model rendering and the
   object equality eval(str) <-> model evaluation. *)
From ML Require Import Model.Types gen.Tables Model.Pitch Model.Ext Model.Ton Model.Tags Model.Code.
From Coq Require Import QArith DecimalString.
Open Scope Z_scope.
Open Scope list_scope.

(* ---------- text of a note ---------- *)
Inductive tok :=
| TDur (name : string)              (* .h .qd .e3 ...        : duration *= STR_TO_DURATION[name] *)
| TAug (n d : Z)                    (* .augment(frac(n, d))  : duration *= n/d, limited to denominators <= LIMIT_DENOM *)
| TO (k : Z)                        (* .o(k)                 : octave += k for s h c b a x, a copy otherwise *)
| TOabs (k : Z)                     (* .oabs(k)              : octave += k *)
| TMode (m : mode) | TAcc (a : accident)
| TAmp (f : ampfig) | TSetAmp0
| TTags (l : list string).          (* .add_tags({...}) *)

Record ntext := mkNT { nt_kind : kind; nt_dir : dir; nt_val : option Z; nt_toks : list tok }.

Fixpoint qassoc {B} (q : Q) (l : list (Q * B)) : option B :=
  match l with [] => None | (k, v) :: r => if Qeq_bool q k then Some v else qassoc q r end.

Definition nonzero (z : Z) : bool := negb (z =? 0).
Definition is_rest_or_cont (k : kind) : bool := match k with KR | KL => true | _ => false end.

(* Note.to_code *)
Definition note_text (n : fnote) : ntext :=
  let isn := is_note_kind (fk n) in
  let isd := kind_eqb (fk n) KD in
  let isx := kind_eqb (fk n) KX in
  let dur := if Qeq_bool (fdur n) 1 then []
             else match qassoc (fdur n) DURATION_TO_STR with
                  | Some nm => [TDur nm]
                  | None => [TAug (Qnum (Qred (fdur n))) (Zpos (Qden (Qred (fdur n))))]
                  end in
  let amp := if isn || isx || isd
             then match amp_figure (famp n) with Fmf => [] | Fn => [TSetAmp0] | f => [TAmp f] end
             else [] in
  mkNT (fk n) (fd n) (if isn || isd || isx then Some (fv n) else None)
    ((if isd && nonzero (fo n) then [TOabs (fo n)] else []) ++
     (if isx && nonzero (fo n) then [TO (fo n)] else []) ++
     dur ++
     (if isn && nonzero (fo n) then [if dir_eqb (fd n) Abs then TO (fo n) else TOabs (fo n)] else []) ++
     (if is_rest_or_cont (fk n) && nonzero (fo n) then [TOabs (fo n)] else []) ++    (* r.oabs(k), l.oabs(k) *)
     (match fmode n with Some m => [TMode m] | None => [] end) ++                  (* every kind of note: r.m, x0.dorian, d0.min *)
     (match facc n with Some a => [TAcc a] | None => [] end) ++
     amp ++
     (match sort_tags (ftags n) with [] => [] | l => [TTags l] end)).     (* the tag set in sorted order *)

(* ---------- evaluation ---------- *)
Fixpoint lib_count (k : kind) (d : dir) (l : list (kind * dir * Z)) : option Z :=
  match l with
  | [] => None
  | (k', d', c) :: r => if kind_eqb k k' && dir_eqb d d' then Some c else lib_count k d r
  end.

(* the library symbol named by the head of the text *)
Definition base_note (k : kind) (d : dir) (v : option Z) : option fnote :=
  match k, v with
  | (KR | KL), None => if dir_eqb d Abs then Some (mkF k Abs 0 0 1 None None DEFAULT_AMP []) else None
  | (KR | KL), Some _ => None
  | _, Some x => do c <- lib_count k d LIB_NOTE_COUNT ;;
                 if (0 <=? x) && (x <? c) then Some (mkF k d x 0 1 None None DEFAULT_AMP []) else None     (* NameError otherwise *)
  | _, None => None
  end.

Definition fig_name (f : ampfig) : string :=
  match f with Fn => "n" | Fppp => "ppp" | Fpp => "pp" | Fp => "p" | Fmp => "mp" | Fmf => "mf" | Ff => "f" | Fff => "ff" | Ffff => "fff" end.

(* Fraction.limit_denominator(LIMIT_DENOM): the identity on fractions whose denominator is small enough; the rounding of
   the others is not modelled (None) *)
Definition limitq (q : Q) : option Q :=
  if Zpos (Qden (Qred q)) <=? LIMIT_DENOM then Some (Qred q) else None.

Definition with_dur (n : fnote) (q : Q) : fnote := mkF (fk n) (fd n) (fv n) (fo n) q (fmode n) (facc n) (famp n) (ftags n).
Definition with_oct (n : fnote) (o : Z) : fnote := mkF (fk n) (fd n) (fv n) o (fdur n) (fmode n) (facc n) (famp n) (ftags n).
Definition with_amp (n : fnote) (a : Q) : fnote := mkF (fk n) (fd n) (fv n) (fo n) (fdur n) (fmode n) (facc n) a (ftags n).

Fixpoint sunion (a b : list string) : list string :=
  match b with
  | [] => a
  | x :: r => if existsb (String.eqb x) a then sunion a r else sunion (a ++ [x]) r
  end.

Definition eval_tok (n : fnote) (t : tok) : option fnote :=
  match t with
  | TDur nm => do q <- assoc nm STR_TO_DURATION ;; Some (with_dur n (fdur n * q)%Q)
  | TAug a b => if b =? 0 then None else do q <- limitq (fdur n * (a # Z.to_pos b))%Q ;; Some (with_dur n q)
  | TO k => match fk n, fd n with
            | (KS | KH | KC | KB | KA | KX), Abs => Some (with_oct n (fo n + k))
            | _, _ => Some n
            end
  | TOabs k => Some (with_oct n (fo n + k))
  | TMode m => Some (mkF (fk n) (fd n) (fv n) (fo n) (fdur n) (Some m) (facc n) (famp n) (ftags n))
  | TAcc a => Some (mkF (fk n) (fd n) (fv n) (fo n) (fdur n) (fmode n) (Some a) (famp n) (ftags n))
  | TAmp f => do a <- assoc (fig_name f) AMP_OF_FIGURE ;; Some (with_amp n a)
  | TSetAmp0 => Some (with_amp n 0)
  | TTags l => Some (mkF (fk n) (fd n) (fv n) (fo n) (fdur n) (fmode n) (facc n) (famp n) (sunion (ftags n) l))
  end.

Fixpoint eval_toks (n : fnote) (l : list tok) : option fnote :=
  match l with [] => Some n | t :: r => do n' <- eval_tok n t ;; eval_toks n' r end.

Definition eval_note (t : ntext) : option fnote :=
  do b <- base_note (nt_kind t) (nt_dir t) (nt_val t) ;; eval_toks b (nt_toks t).

(* what the statement compares: every field, the dynamics by figure (not for rests and continuations) *)
Definition same_note (a b : fnote) : bool :=
  kind_eqb (fk a) (fk b) && dir_eqb (fd a) (fd b) && (fv a =? fv b) && (fo a =? fo b) && Qeq_bool (fdur a) (fdur b) &&
  option_eqb mode_eqb (fmode a) (fmode b) && option_eqb acc_eqb (facc a) (facc b) &&
  (match fk a with KR | KL => true | _ => ampfig_eqb (amp_figure (famp a)) (amp_figure (famp b)) end) &&
  list_eqb String.eqb (sort_tags (ftags a)) (sort_tags (ftags b)).      (* the same tag SET *)

(* ---------- rendering to the printed string ---------- *)
Open Scope string_scope.
Definition zstr (z : Z) : string := NilZero.string_of_int (Z.to_int z).
Definition kind_str (k : kind) : string :=
  match k with KS => "s" | KH => "h" | KC => "c" | KB => "b" | KA => "a" | KD => "d" | KX => "x" | KR => "r" | KL => "l" end.
Definition dir_str (d : dir) : string := match d with Abs => "" | Up => "u" | Down => "d" end.
Definition mode_str (m : mode) : string :=
  match m with MMaj => "M" | MMin => "m" | MMel => "mm" | MDor => "dorian" | MPhr => "phrygian" | MLyd => "lydian"
             | MMix => "mixolydian" | MAeo => "aeolian" | MLoc => "locrian" end.
Definition acc_str (a : accident) : string :=
  match a with AMin => "min" | AMaj => "maj" | ANat => "natural" | ADim => "dim" | AAug => "aug" end.

Fixpoint join (sep : string) (l : list string) : string :=
  match l with [] => "" | [x] => x | x :: r => x ++ sep ++ join sep r end.

Definition tok_str (t : tok) : string :=
  match t with
  | TDur nm => "." ++ nm
  | TAug a b => if (b =? 1)%Z then ".augment(" ++ zstr a ++ ")"                     (* whole numbers are printed bare *)
                else ".augment(frac(" ++ zstr a ++ ", " ++ zstr b ++ "))"
  | TO k => ".o(" ++ zstr k ++ ")"
  | TOabs k => ".oabs(" ++ zstr k ++ ")"
  | TMode m => "." ++ mode_str m
  | TAcc a => "." ++ acc_str a
  | TAmp f => "." ++ fig_name f
  | TSetAmp0 => ".set_amp(0)"
  | TTags l => ".add_tags({" ++ join ", " (map (fun s => "'" ++ s ++ "'") l) ++ "})"
  end.

Definition ntext_str (t : ntext) : string :=
  kind_str (nt_kind t) ++ dir_str (nt_dir t) ++ (match nt_val t with Some v => zstr v | None => "" end) ++
  String.concat "" (map tok_str (nt_toks t)).

Definition melody_str (m : list fnote) : string := join " + " (map (fun n => ntext_str (note_text n)) m).

(* ---------- tonalities and chords ---------- *)
(* DEGREE_TO_STR entries are read as <element name>[.b|.s] *)
Inductive alter := ANone | AFlat | ASharp.
Definition alter_str (a : alter) : string := match a with ANone => "" | AFlat => ".b" | ASharp => ".s" end.

Definition degree_names : list (string * (Z * alter)) :=
  flat_map (fun ie => map (fun a => ((snd ie ++ alter_str a)%string, (fst ie, a))) [ANone; AFlat; ASharp])
           (combine [0; 1; 2; 3; 4; 5; 6] ELEMENT_TO_STR).

Fixpoint zassoc {B} (k : Z) (l : list (Z * B)) : option B :=
  match l with [] => None | (k', v) :: r => if (k =? k')%Z then Some v else zassoc k r end.

Record ttext := mkTT { tt_name : string; tt_mode : mode; tt_oct : Z }.

(* Tonality.to_code : DEGREE_TO_STR[degree] . mode [.o(octave)]  (KeyError outside 0..11) *)
Definition ton_text (t : tonality) : option ttext :=
  do nm <- zassoc (tdeg t) DEGREE_TO_STR ;; Some (mkTT nm (tmode t) (toct t)).

Definition ttext_str (t : ttext) : string :=
  tt_name t ++ "." ++ mode_str (tt_mode t) ++ (if nonzero (tt_oct t) then ".o(" ++ zstr (tt_oct t) ++ ")" else "").

(* Element.b / .s / .<mode> then Tonality.o *)
Definition eval_ton (t : ttext) : option tonality :=
  do ea <- assoc (tt_name t) degree_names ;;
  do sd <- nth_error SCALE_DEGREE (Z.to_nat (fst ea)) ;;
  let t0 := mkT sd MMaj 0 in
  let t1 := match snd ea with ANone => t0 | AFlat => ton_b t0 | ASharp => ton_s t0 end in
  Some (mkT (tdeg t1) (tt_mode t) (toct t1 + (if nonzero (tt_oct t) then tt_oct t else 0))).

(* Chord.to_code : (ELEMENT[ext] % tonality).o(octave); the parts follow in order *)
Record ctext := mkCT { ct_elem : Z; ct_ext : extension; ct_ton : ttext; ct_oct : Z; ct_parts : list (string * list ntext) }.

Definition is_empty_ext (e : extension) : bool :=
  String.eqb (fig e) "" && match repl e, adds e, rems e with [], [], [] => true | _, _, _ => false end.

Definition chord_text (c : fchord) : option ctext :=
  do tx <- ton_text (cton (fc c)) ;;
  if ((0 <=? celem (fc c)) && (celem (fc c) <? 7))%Z then
    Some (mkCT (celem (fc c)) (cext (fc c)) tx (coct (fc c)) (map (fun kv => (fst kv, map note_text (snd kv))) (fparts c)))
  else None.                                            (* ELEMENT_TO_STR KeyError *)

Definition ext_str (e : extension) : string :=
  fig e ++ String.concat "" (map (fun r => "(" ++ r ++ ")") (repl e)) ++ String.concat "" (map (fun r => "[" ++ r ++ "]") (adds e))
        ++ String.concat "" (map (fun r => "{" ++ r ++ "}") (rems e)).

Definition tab : string := String (Ascii.ascii_of_nat 9) "".
Definition nl : string := String (Ascii.ascii_of_nat 10) "".

Definition ctext_str (c : ctext) : string :=
  let head := "(" ++ nth (Z.to_nat (ct_elem c)) ELEMENT_TO_STR "" ++
              (if is_empty_ext (ct_ext c) then "" else "['" ++ ext_str (ct_ext c) ++ "']") ++ " % " ++ ttext_str (ct_ton c) ++ ")" in
  let head := if nonzero (ct_oct c) then head ++ ".o(" ++ zstr (ct_oct c) ++ ")" else head in
  head ++ "(" ++ nl ++
  join (", " ++ nl) (map (fun kv => tab ++ fst kv ++ "=" ++ join " + " (map ntext_str (snd kv))) (ct_parts c)) ++ ")".

Fixpoint omap' {A B} (f : A -> option B) (l : list A) : option (list B) :=
  match l with [] => Some [] | x :: r => do y <- f x ;; do ys <- omap' f r ;; Some (y :: ys) end.

(* Element[ext] % tonality, .o(octave), then the named melodies *)
Definition eval_chord (c : ctext) : option fchord :=
  if ((0 <=? ct_elem c) && (ct_elem c <? 7))%Z then
    let c0 := mkC (ct_elem c) (bare "") (mkT 0 MMaj 0) 0 in
    do c1 <- (if is_empty_ext (ct_ext c) then Some c0 else getitem c0 (ct_ext c)) ;;
    do t <- eval_ton (ct_ton c) ;;
    let c2 := mkC (celem c1) (cext c1) t (0 + ct_oct c) in
    do ps <- omap' (fun kv => do m <- omap' eval_note (snd kv) ;; Some (fst kv, m)) (ct_parts c) ;;
    Some (mkFC c2 ps)
  else None.

Definition same_melody (a b : list fnote) : bool := list_eqb same_note a b.
Definition same_fchord (a b : fchord) : bool :=
  (celem (fc a) =? celem (fc b))%Z && ext_eqb (cext (fc a)) (cext (fc b)) && ton_fields_eqb (cton (fc a)) (cton (fc b)) &&
  (coct (fc a) =? coct (fc b))%Z &&
  list_eqb (fun x y => String.eqb (fst x) (fst y) && same_melody (snd x) (snd y)) (fparts a) (fparts b).

(* Score.__repr__ joins the chords with "+ \n"; from_str splits there and evaluates each chord *)
Definition score_str (s : list ctext) : string := join ("+ " ++ nl) (map ctext_str s).

(* ---------- correspondence checkers ---------- *)
(* (note, printed string, fields of eval(printed string)) *)
Definition check_note_text (x : fnote * string * option fnote) : bool :=
  let '(n, s, r) := x in
  String.eqb (ntext_str (note_text n)) s && option_eqb same_note (eval_note (note_text n)) r.

(* (chord with parts, printed string, fields of eval(printed string)) *)
Definition check_chord_text (x : fchord * string * option fchord) : bool :=
  let '(c, s, r) := x in
  match chord_text c with
  | Some t => String.eqb (ctext_str t) s && option_eqb same_fchord (eval_chord t) r
  | None => match r with None => true | Some _ => false end
  end.

Definition check_score_text (x : list fchord * string) : bool :=
  let '(sc, s) := x in
  match omap' chord_text sc with Some ts => String.eqb (score_str ts) s | None => false end.

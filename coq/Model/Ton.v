(* Model of the tonality algebra and of chord modulation / octaves:
   Tonality.add/__add__/__sub__/__eq__/o/b/s, Chord.__mod__/modulate/o,
   Note.o (in Pitch.v), Melody.o, Chord.o_melody. *)
From ML Require Import Model.Types gen.Tables Model.Pitch.
Open Scope Z_scope.

Definition ton_add (a b : tonality) : tonality :=
  let d := tdeg a + tdeg b in
  mkT (d mod 12) (tmode b) (toct a + toct b + d / 12).

Definition ton_sub (a b : tonality) : tonality :=
  let d := tdeg a - tdeg b in
  mkT (d mod 12) (tmode a) (toct a - toct b + d / 12).

Definition ton_zero : tonality := mkT 0 MMaj 0.

(* Tonality.__eq__ : (Tonality(0) + self)._eq(Tonality(0) + other) *)
Definition ton_eqb (a b : tonality) : bool :=
  let a' := ton_add ton_zero a in let b' := ton_add ton_zero b in
  (tdeg a' =? tdeg b') && mode_eqb (tmode a') (tmode b') && (toct a' =? toct b').

Definition ton_o (t : tonality) (k : Z) : tonality := mkT (tdeg t) (tmode t) (toct t + k).

Definition ton_b (t : tonality) : tonality :=
  if tdeg t - 1 =? -1 then mkT 11 (tmode t) (toct t - 1) else mkT (tdeg t - 1) (tmode t) (toct t).

Definition ton_s (t : tonality) : tonality :=
  if tdeg t + 1 =? 12 then mkT 0 (tmode t) (toct t + 1) else mkT (tdeg t + 1) (tmode t) (toct t).

(* Chord.__mod__ : the chord octave is folded into the tonality and reset *)
Definition chord_mod (c : chord) (t : tonality) : chord :=
  mkC (celem c) (cext c) (ton_add (cton c) (mkT (tdeg t) (tmode t) (toct t + coct c))) 0.

Definition chord_o (c : chord) (k : Z) : chord := mkC (celem c) (cext c) (cton c) (coct c + k).

Definition melody_o (m : list pnote) (k : Z) : list pnote := map (fun n => note_o n k) m.

(* ---- correspondence checkers ---- *)
Definition ton_fields_eqb (a b : tonality) : bool :=
  (tdeg a =? tdeg b) && mode_eqb (tmode a) (tmode b) && (toct a =? toct b).

(* (a, b, (a+b, a-b, a==b, a.b, a.s)) *)
Definition check_ton (x : tonality * tonality * (tonality * tonality * bool * tonality * tonality)) : bool :=
  let '(a, b, (s, d, e, fb, fs)) := x in
  ton_fields_eqb (ton_add a b) s && ton_fields_eqb (ton_sub a b) d && Bool.eqb (ton_eqb a b) e &&
  ton_fields_eqb (ton_b a) fb && ton_fields_eqb (ton_s a) fs.

Definition res_eqb := option_eqb (option_eqb Z.eqb).

(* (c, t, k, n, (tonality and octave of c % t, pitch in c % t, pitch in c.o(k), pitch of n.o(k) in c)) *)
Definition check_modulate
  (x : chord * tonality * Z * pnote * (tonality * Z * option (option Z) * option (option Z) * option (option Z))) : bool :=
  let '(c, t, k, n, (t', o', p1, p2, p3)) := x in
  let c' := chord_mod c t in
  ton_fields_eqb (cton c') t' && (coct c' =? o') &&
  res_eqb (to_pitch_abs c' n) p1 && res_eqb (to_pitch_abs (chord_o c k) n) p2 &&
  res_eqb (to_pitch_abs c (note_o n k)) p3.

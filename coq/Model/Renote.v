(* Model of two re-notations on rendering-level scores (integer ticks):
   Note/Melody/Chord/Score.to_absolute_note and
   pattern_analyzer.inverse_recursive_correct_octave (Chord/Score.correct_chord_octave). *)
From ML Require Import Model.Types gen.Tables Model.Pitch Model.Rel Model.Ton Model.Render Model.Slice Model.Import.
Open Scope Z_scope.
Open Scope list_scope.

Definition pitched (n : tnote) : bool :=
  match pkind (tn n) with KR | KL | KD | KX => false | _ => true end.

Definition abs_pnote (p : Z) : pnote := mkP KA Abs (p mod 12) (p / 12) None None.

(* Chord.to_pitch(note, last_pitch) for a pitched note; a relative note without reference raises *)
Definition pitch_with (c : chord) (n : pnote) (last : option Z) : option Z :=
  match pdir n with
  | Abs => match to_pitch_abs c n with Some (Some p) => Some p | _ => None end
  | _ => match last with Some l => to_pitch_rel c n l | None => None end
  end.

(* Note.to_absolute_note + the reference update of Melody.to_absolute_note *)
Definition note_to_absolute (c : chord) (n : tnote) (last : option Z) : option (tnote * option Z) :=
  if pitched n then
    do p <- pitch_with c (tn n) last ;; Some (mkTN (abs_pnote p) (tdur n) (tamp n), Some p)
  else Some (n, last).

Fixpoint melody_to_absolute (c : chord) (m : list tnote) (last : option Z) : option (list tnote * option Z) :=
  match m with
  | [] => Some ([], last)
  | n :: r => do x <- note_to_absolute c n last ;;
              do y <- melody_to_absolute c r (snd x) ;; Some (fst x :: fst y, snd y)
  end.

Fixpoint zolook (k : string) (d : list (string * option Z)) : option Z :=
  match d with [] => None | (k', v) :: r => if String.eqb k k' then v else zolook k r end.
Fixpoint zoset (k : string) (v : option Z) (d : list (string * option Z)) : list (string * option Z) :=
  match d with
  | [] => [(k, v)]
  | (k', v') :: r => if String.eqb k k' then (k', v) :: r else (k', v') :: zoset k v r
  end.

(* Chord.to_absolute_note(last_pitch=dict, return_last_pitch=True): the dictionary persists across chords *)
Fixpoint parts_to_absolute (c : chord) (ps : list (string * list tnote)) (d : list (string * option Z))
  : option (list (string * list tnote) * list (string * option Z)) :=
  match ps with
  | [] => Some ([], d)
  | (k, m) :: r =>
      do x <- melody_to_absolute c m (zolook k d) ;;
      do y <- parts_to_absolute c r (zoset k (snd x) d) ;;
      Some ((k, fst x) :: fst y, snd y)
  end.

Fixpoint score_to_absolute_from (s : rscore) (d : list (string * option Z)) : option rscore :=
  match s with
  | [] => Some []
  | c :: r => do x <- parts_to_absolute (rc c) (rparts c) d ;;
              do y <- score_to_absolute_from r (snd x) ;; Some (mkRC (rc c) (fst x) :: y)
  end.
Definition score_to_absolute (s : rscore) : option rscore := score_to_absolute_from s [].

(* ---- correct_chord_octave ---- *)
Definition compensate (m : list tnote) (k : Z) : list tnote :=
  map (fun n => if kind_eqb (pkind (tn n)) KA then n else mkTN (note_o (tn n) k) (tdur n) (tamp n)) m.

Fixpoint correct_octave (fuel : nat) (c : rchord) : option rchord :=
  match fuel with
  | O => None
  | S f =>
      do ep <- chord_extension_pitches (rc c) ;;
      match ep with
      | [] => None
      | bass :: _ =>
          if 6 <? bass then correct_octave f (mkRC (chord_o (rc c) (-1)) (map (fun kv => (fst kv, compensate (snd kv) 1)) (rparts c)))
          else if bass <=? -6 then correct_octave f (mkRC (chord_o (rc c) 1) (map (fun kv => (fst kv, compensate (snd kv) (-1))) (rparts c)))
          else Some c
      end
  end.

Definition score_correct_octave (s : rscore) : option rscore := omap (correct_octave 64) s.

(* ---- correspondence checkers ---- *)
Definition check_to_absolute (x : rscore * option rscore) : bool :=
  let '(s, r) := x in option_eqb rscore_eqb (score_to_absolute s) r.
Definition check_correct_octave (x : rscore * option rscore) : bool :=
  let '(s, r) := x in option_eqb rscore_eqb (score_correct_octave s) r.

(* ---- Note.to_standard_note: a chord tone / bass tone written as the scale (or chromatic) note of _chord_notes_calc it
   stands for, moved by the octaves it counts; an absolute note re-notated with Chord.parse; other notes kept ---- *)
Definition candidate_note (l : list (Z * pnote)) (n : pnote) : option pnote :=
  let m := zlen l in
  if m =? 0 then None                                              (* ZeroDivisionError *)
  else
    let x := snd (nth (Z.to_nat (pval n mod m)) l (0, plain KS 0 0)) in
    Some (note_o x (pval n / m + poct n)).

Definition note_to_standard (c : chord) (n : pnote) : option pnote :=
  match pkind n, pdir n with
  | KC, Abs => do l <- chord_notes_calc c (root_figure (fig (cext c))) ;; candidate_note l n
  | KB, Abs => do l <- chord_notes_calc c (fig (cext c)) ;; candidate_note l n
  | KA, Abs => do pr <- to_pitch_abs c n ;; do p <- pr ;; parse c p    (* no mode, no accidental on the scale note *)
  | _, _ => Some n
  end.

Definition accid_eqb (a b : accident) : bool :=
  match a, b with
  | AMin, AMin | AMaj, AMaj | ANat, ANat | ADim, ADim | AAug, AAug => true
  | _, _ => false
  end.
Definition pn_full_eqb (a b : pnote) : bool := pn_eqb a b && option_eqb accid_eqb (pacc a) (pacc b).

Definition check_to_standard (x : chord * pnote * option pnote) : bool :=
  let '(c, n, r) := x in option_eqb pn_full_eqb (note_to_standard c n) r.

(* Note.to_scale_note(chord) / Melody.to_scale_notes(chord) / Chord.to_scale_notes(): the note's pitch under the chord, notated again
   by Chord.parse (a scale note when the pitch class belongs to the chord scale, a chromatic note otherwise); a non-relative note
   only (these entry points take no reference pitch); rests and continuations are copied *)
Definition to_scale_note (c : chord) (n : pnote) : option pnote :=
  match to_pitch_abs c n with
  | Some (Some p) => parse c p
  | _ => None
  end.

Definition check_to_scale_note (x : chord * pnote * option pnote) : bool :=
  let '(c, n, r) := x in option_eqb pn_full_eqb (to_scale_note c n) r.

(* ---- Note.to_chord_note / Note.to_extension_note: a note found (octave apart) among the notes of _chord_notes_calc is written as the
   chord tone / bass tone of that index, its octave counted from the candidate's; a note carrying an accidental, and every note that is
   not among the candidates, is copied.  (list.index compares with Note.__eq__: kind, direction, value, octave, mode.) ---- *)
Definition as_key (n : pnote) : pnote := mkP (pkind n) (pdir n) (pval n) 0 (pmode n) (pacc n).

Definition note_to_tone (k : kind) (l : list (Z * pnote)) (n : pnote) : pnote :=
  match pacc n with
  | Some _ => n
  | None =>
      match index_of (as_key n) (map (fun e => no_oct (snd e)) l) with
      | Some i => mkP k (pdir n) (Z.of_nat i) (poct n - poct (snd (nth i l (0, plain KS 0 0)))) (pmode n) (pacc n)
      | None => n
      end
  end.

(* a note with an accidental is returned before the chord's tones are even computed (an invalid figure does not matter to it) *)
Definition note_to_chord_note (c : chord) (n : pnote) : option pnote :=
  match pacc n with
  | Some _ => Some n
  | None => do l <- chord_notes_calc c (root_figure (fig (cext c))) ;; Some (note_to_tone KC l n)
  end.
Definition note_to_extension_note (c : chord) (n : pnote) : option pnote :=
  match pacc n with
  | Some _ => Some n
  | None => do l <- chord_notes_calc c (fig (cext c)) ;; Some (note_to_tone KB l n)
  end.

Definition check_to_chord_note (x : chord * pnote * option pnote) : bool :=
  let '(c, n, r) := x in option_eqb pn_full_eqb (note_to_chord_note c n) r.
Definition check_to_extension_note (x : chord * pnote * option pnote) : bool :=
  let '(c, n, r) := x in option_eqb pn_full_eqb (note_to_extension_note c n) r.

(* Model of notation from pitches and timed notes: Chord.parse, and
   to_musiclang._parse_voice / infer_score_with_chords_durations (the core of MIDI import)
   for non-drum voices.  Integer ticks (tick_value = 1). *)
From ML Require Import Model.Types gen.Tables Model.Pitch Model.Rel Model.Render Model.Slice.
Open Scope Z_scope.
Open Scope list_scope.

(* ---- Chord.parse ---- *)
Fixpoint zfind (x : Z) (l : list Z) : option Z :=
  match l with [] => None | y :: r => if x =? y then Some 0 else option_map Z.succ (zfind x r) end.

Definition parse (c : chord) (p : Z) : option pnote :=
  do sp <- chord_scale c ;;
  let in_scale := existsb (fun s => s mod 12 =? p mod 12) sp in
  let scale := if in_scale then sp else range12 (znth sp 0) in
  do idx <- zfind (p mod 12) (map (fun s => s mod 12) scale) ;;
  Some (mkP (if in_scale then KS else KH) Abs idx ((p - znth scale 0) / 12) None None).

Definition check_parse (x : chord * Z * option (pnote * option (option Z))) : bool :=
  let '(c, p, r) := x in
  option_eqb (fun a b => pn_eqb (fst a) (fst b) && option_eqb (option_eqb Z.eqb) (snd a) (snd b))
    (do n <- parse c p ;; Some (n, to_pitch_abs c n)) r.

(* ---- _parse_voice ---- *)
Record inote := mkIN { i_start : Z; i_end : Z; i_pitch : Z; i_vel : Z }.   (* pitch relative to middle C *)

(* melody[-1].duration -= d ; pop it if it becomes 0.  racc = the melody, most recent first *)
Definition trim_last (racc : list tnote) (d : Z) : option (list tnote) :=
  match racc with
  | [] => None                                   (* IndexError *)
  | n :: r => if tdur n - d =? 0 then Some r else Some (with_dur n (tdur n - d) :: r)
  end.

Definition parse_note (c : chord) (n : inote) (dur : Z) : option tnote :=
  do p <- parse c (i_pitch n) ;; Some (mkTN p dur (i_vel n)).

Definition push_note (c : chord) (n : inote) (racc : list tnote) : option (list tnote) :=
  let dur := i_end n - i_start n in
  if 0 <? dur then do x <- parse_note c n dur ;; Some (x :: racc) else Some racc.

Fixpoint voice_loop (c : chord) (notes : list inote) (local_end : Z) (racc : list tnote) : option (list tnote * Z) :=
  match notes with
  | [] => Some (racc, local_end)
  | n :: r =>
      let overlap := local_end - i_start n in
      do racc' <-
        (if 0 <? overlap then do t <- trim_last racc overlap ;; push_note c n t
         else if overlap <? 0 then push_note c n (silence (- overlap) :: racc)
         else push_note c n racc) ;;
      voice_loop c r (i_end n) racc'
  end.

(* returns the melody and the pending tie (ticks held beyond the bar) *)
Definition parse_voice (c : chord) (notes : list inote) (bar_start bar_end : Z) (cont : option Z)
  : option (list tnote * option Z) :=
  match notes with
  | [] => None
  | n0 :: _ =>
      let '(racc0, le0) :=
        match cont with
        | Some d => ((if 0 <? d then [continuation d] else []), bar_start + d)
        | None => ((if bar_start <? i_start n0 then [silence (i_start n0 - bar_start)] else []), i_start n0)
        end in
      do x <- voice_loop c notes le0 racc0 ;;
      let '(racc, le) := x in
      do y <-
        (if le <? bar_end then Some (silence (bar_end - le) :: racc, None)
         else if bar_end <? le then do t <- trim_last racc (le - bar_end) ;; Some (t, Some (le - bar_end))
         else Some (racc, None)) ;;
      let mel := filter (fun m => 0 <? tdur m) (rev (fst y)) in
      match mel with [] => None | _ => Some (mel, snd y) end      (* melody.notes[0]: IndexError / assertions *)
  end.

(* ---- infer_score_with_chords_durations ---- *)
Fixpoint alook (k : string) (d : list (string * option Z)) : option Z :=
  match d with [] => None | (k', v) :: r => if String.eqb k k' then v else alook k r end.
Fixpoint aset (k : string) (v : option Z) (d : list (string * option Z)) : list (string * option Z) :=
  match d with
  | [] => [(k, v)]
  | (k', v') :: r => if String.eqb k k' then (k', v) :: r else (k', v') :: aset k v r
  end.

(* voices that start something in [ts, te), in the order the code visits them *)
Fixpoint bar_voices (c : chord) (ts te : Z) (voices : list (string * list inote)) (conts : list (string * option Z))
  (acc : list (string * list tnote)) : option (list (string * list tnote) * list (string * option Z)) :=
  match voices with
  | [] => Some (acc, conts)
  | (name, notes) :: r =>
      let here := filter (fun n => (ts <=? i_start n) && (i_start n <? te)) notes in
      match here with
      | [] => bar_voices c ts te r conts acc
      | _ => do x <- parse_voice c here ts te (alook name conts) ;;
             bar_voices c ts te r (aset name (snd x) conts) (acc ++ [(name, fst x)])
      end
  end.

(* voices that start nothing in the bar but still hold a note *)
Fixpoint held_voices (len : Z) (todo conts : list (string * option Z)) (acc : list (string * list tnote))
  : list (string * list tnote) * list (string * option Z) :=
  match todo with
  | [] => (acc, conts)
  | (name, v) :: r =>
      match v with
      | Some d =>
          if (0 <? d) && negb (existsb (fun kv => String.eqb name (fst kv)) acc) then
            let held := Z.min d len in
            let mel := continuation held :: (if held <? len then [silence (len - held)] else []) in
            held_voices len r (aset name (if held <? d then Some (d - held) else None) conts) (acc ++ [(name, mel)])
          else held_voices len r conts acc
      | None => held_voices len r conts acc
      end
  end.

Fixpoint import_bars (bars : list (chord * Z * Z)) (voices : list (string * list inote)) (ts : Z) (first : bool)
  (conts : list (string * option Z)) (prev : option rchord) : option rscore :=
  match bars with
  | [] => Some []
  | (c, cdur, barlen) :: r =>
      let te := ts + cdur in
      do x <- bar_voices c ts te voices conts [] ;;
      let '(parts, conts') := held_voices (te - ts) (snd x) (snd x) (fst x) in
      let is_last := match r with [] => true | _ => false end in
      match parts with
      | [] =>
          if is_last then Some []
          else
            let ch := match prev with
                      | Some pc => mkRC (rc pc) [(match rparts pc with (nm, _) :: _ => nm | [] => "piano__0"%string end, [silence barlen])]
                      | None => mkRC c [("piano__0"%string, [silence barlen])]
                      end in
            do rest <- import_bars r voices te false conts' (Some ch) ;; Some (ch :: rest)
      | _ =>
          let ch := mkRC c parts in
          do rest <- import_bars r voices te false conts' (Some ch) ;; Some (ch :: rest)
      end
  end.

Definition import_score (bars : list (chord * Z * Z)) (voices : list (string * list inote)) : option rscore :=
  import_bars bars voices 0 true [] None.

Definition check_import (x : list (chord * Z * Z) * list (string * list inote) * option rscore) : bool :=
  let '(b, v, r) := x in option_eqb rscore_eqb (import_score b v) r.

(* Model of relative notes: pitches_utils.relative_scale_up_value /
   relative_scale_down_value / get_relative_scale_value (with the +-10 octave
   window and Python's list indexing, IndexError = None) and the relative
   branch of note_to_pitch_result. *)
From ML Require Import Model.Types gen.Tables Model.Pitch.
Open Scope Z_scope.

Fixpoint dedup_adj (l : list Z) : list Z :=
  match l with
  | x :: ((y :: _) as r) => if x =? y then dedup_adj r else x :: dedup_adj r
  | _ => l
  end.

(* list(sorted(set(s % 12 for s in scale))) *)
Definition scale_mod (sp : list Z) : list Z :=
  dedup_adj (sort_key (fun x => x) (map (fun s => s mod 12) sp)).

Definition octs : list Z := [-10; -9; -8; -7; -6; -5; -4; -3; -2; -1; 0; 1; 2; 3; 4; 5; 6; 7; 8; 9].

Definition whole (sm : list Z) : list Z := flat_map (fun o => map (fun s => s + o * 12) sm) octs.

Definition mem (p : Z) (l : list Z) : bool := existsb (Z.eqb p) l.

(* Python l[i] with negative indices; IndexError = None *)
Definition py_index (l : list Z) (i : Z) : option Z :=
  let n := zlen l in
  if (0 <=? i) && (i <? n) then nth_error l (Z.to_nat i)
  else if (- n <=? i) && (i <? 0) then nth_error l (Z.to_nat (n + i))
  else None.

Definition up_value (delta last : Z) (sm : list Z) : option Z :=
  let w := whole sm in
  if delta =? 0 then py_index (filter (fun s => last <=? s) w) 0
  else py_index (filter (fun s => 0 <=? s - last) w) (delta - (if mem last w then 0 else 1)).

Definition down_value (delta last : Z) (sm : list Z) : option Z :=
  let w := whole sm in
  if delta =? 0 then py_index (filter (fun s => s <=? last) w) (-1)
  else py_index (filter (fun s => s - last <=? 0) w) (- (delta + 1) + (if mem last w then 0 else 1)).

Definition get_relative (val oct : Z) (down : bool) (last : Z) (sp : list Z) : option Z :=
  let sm := scale_mod sp in
  let t0 := val + zlen sm * oct in
  let total := if down then - t0 else t0 in
  if 0 <? total then up_value total last sm
  else if total <? 0 then down_value (- total) last sm
  else if mem (last mod 12) (map (fun s => s mod 12) sm) then Some last
  else do u <- up_value 0 last sm ;; do d <- down_value 0 last sm ;;
       Some (if Z.abs (u - last) <=? Z.abs (d - last) then u else d).

(* relative branch of note_to_pitch_result: the system depends on the kind *)
Definition to_pitch_rel (c : chord) (n : pnote) (last : Z) : option Z :=
  let down := match pdir n with Down => true | _ => false end in
  match pkind n with
  | KS => do sp <- chord_scale (real_chord n c) ;; get_relative (pval n) (poct n) down last sp
  | KC => do sp <- chord_pitches c ;; get_relative (pval n) (poct n) down last sp
  | KB => do sp <- chord_extension_pitches c ;; get_relative (pval n) (poct n) down last sp
  | KH => do sp <- chord_scale c ;; get_relative (pval n) (poct n) down last (range12 (znth sp 0))
  | _ => None      (* 'This kind of note is not supported' *)
  end.

Definition check_relative (x : chord * pnote * Z * option Z) : bool :=
  let '(c, n, last, r) := x in option_eqb Z.eqb (to_pitch_rel c n last) r.

Definition check_get_relative (x : Z * Z * bool * Z * list Z * option Z) : bool :=
  let '(v, o, d, last, sp, r) := x in option_eqb Z.eqb (get_relative v o d last sp) r.

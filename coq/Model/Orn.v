(* Model of ornament realisation on durations (exact rationals): every builder of
   ornementation.py for a single tag, realize_tags' final assertion, and the sums over
   melodies.  A realisation is the list of the durations of the produced pieces;
   None = the python code raises. *)
From ML Require Import Model.Types gen.Tables Model.Dur.
From Coq Require Import QArith Qround.
Open Scope Z_scope.
Open Scope list_scope.

Inductive tag := TAccent | TMordant | TInvMordant | TChromaMordant | TInvChromaMordant
  | TGrupetto | TInvGrupetto | TChromaGrupetto | TInvChromaGrupetto | TRoll | TRollFast
  | TSuspensionPrev | TSuspensionPrevRepeat | TRetarded | TInterpolate.

Definition all_tags : list tag :=
  [TAccent; TMordant; TInvMordant; TChromaMordant; TInvChromaMordant; TGrupetto; TInvGrupetto; TChromaGrupetto;
   TInvChromaGrupetto; TRoll; TRollFast; TSuspensionPrev; TSuspensionPrevRepeat; TRetarded; TInterpolate].

(* context: is there a previous note; the current and next note as (is_note, plain scale note?, value, octave) *)
Record nctx := mkCtx { has_last : bool; cur_isnote : bool; cur_plain_s : bool; cur_val : Z; cur_oct : Z;
                       next_some : bool; next_isnote : bool; next_plain_s : bool; next_val : Z; next_oct : Z }.

Definition sd (x : Q) : Q := note_set_duration x.          (* Note.set_duration : limit_denominator(1000) *)

Definition is_intq (q : Q) : bool := Zpos (Qden (Qred q)) =? 1.
Definition qfloor (q : Q) : Z := Qfloor q.

(* int(7 * val / 12) : truncation toward zero *)
Definition scale_val (plain_s : bool) (v o : Z) : Z := (if plain_s then v else Z.quot (7 * v) 12) + 7 * o.

Definition interp_delta (c : nctx) : Z :=
  scale_val (next_plain_s c) (next_val c) (next_oct c) - scale_val (cur_plain_s c) (cur_val c) (cur_oct c).

(* the builders, parametrised by what set_duration does to a value *)
Section Builders.
  Variable sdf : Q -> Q.

  Definition mordant_like (d : Q) : list Q :=
    if Qle_bool (1 # 2) d then [sdf (1 # 4); sdf (1 # 4); sdf (d - 2 * (1 # 4))%Q] else [d].

  (* note.n is the duration suffix "n" (x 0): a zero-length copy *)
  Definition grupetto_like (md d : Q) : list Q := [Qred (d * 0); sdf md; sdf md; sdf md; sdf (d - 3 * md)%Q].

  (* roll: nb pieces of md, then a continuation for the remainder; too short notes are left alone *)
  Definition roll_like (md d : Q) : list Q :=
    let nb := qfloor (d / md) in
    if nb =? 0 then [d]
    else
      let pieces := repeat (sdf md) (Z.to_nat nb) in
      if is_intq (d / md)%Q then pieces else pieces ++ [sdf (d - inject_Z nb * md)%Q].

  Definition interpolate_like (c : nctx) (d : Q) : list Q :=
    if negb (next_some c) || negb (next_isnote c) || negb (cur_isnote c) then [d]
    else
      let delta := interp_delta c in
      if delta =? 0 then [d]
      else repeat (sdf (d / inject_Z (Z.abs delta))%Q) (Z.to_nat (Z.abs delta)).

  Definition build_with (t : tag) (c : nctx) (d : Q) : list Q :=
    match t with
    | TAccent => [d]
    | TMordant | TInvMordant | TChromaMordant | TInvChromaMordant => mordant_like d
    | TGrupetto =>
        if Qle_bool (3 # 2) d then grupetto_like (1 # 2) d
        else if Qle_bool (1 # 2) d then grupetto_like ((2 # 3) * (1 # 4)) d else [d]
    | TInvGrupetto | TChromaGrupetto | TInvChromaGrupetto =>
        if Qle_bool (1 # 2) d then grupetto_like ((2 # 3) * (1 # 4)) d else [d]
    | TRoll => roll_like (1 # 4) d
    | TRollFast => roll_like (1 # 6) d
    | TSuspensionPrev | TSuspensionPrevRepeat => if has_last c then [sdf (d / 2); sdf (d / 2)]%Q else [d]
    | TRetarded => if Qle_bool d (1 # 12) then [d] else [sdf (1 # 12); sdf (d - (1 # 12))%Q]
    | TInterpolate => interpolate_like c d
    end.
End Builders.

Definition build (t : tag) (c : nctx) (d : Q) : option (list Q) := Some (build_with sd t c d).

(* the same figures in exact arithmetic *)
Definition ideal (t : tag) (c : nctx) (d : Q) : list Q := build_with (fun x => x) t c d.

(* realize_tags for one tag: the final assertion compares the total with the note's duration *)
Definition realize (t : tag) (c : nctx) (d : Q) : option (list Q) :=
  match build t c d with
  | Some l => if Qeq_bool (qsum l) d then Some l else None          (* AssertionError *)
  | None => None
  end.

Definition check_realize (x : tag * nctx * Q * option (list Q)) : bool :=
  let '(t, c, d, r) := x in option_eqb qlist_eqb (realize t c d) r.

(* Model of the clock of roman-numeral annotations (integer ticks): ScoreFormatter.set_time_signature,
   set_bar_number, set_current_beat, add_chord, BarChord.parse (duration to the end of the bar),
   prev_duration, and the de-duplication of bar lines in ScoreFormatter.init.
   Tokens come from the line/space splitting of the text (glue). *)
From ML Require Import Model.Types.
Open Scope Z_scope.
Open Scope list_scope.

Inductive token := TSig (barlen : Z) | TBar (k : Z) | TBeat (pos : Z) | TChord.

(* ScoreFormatter.init: only the first variation of a bar is kept, bars numbered below the current one are skipped.
   A bar line is given with the tokens of its line. *)
Fixpoint keep_bars (init_bar : Z) (lines : list (Z * list token)) : list token :=
  match lines with
  | [] => []
  | (k, toks) :: r =>
      if k <? init_bar then keep_bars init_bar r
      else if k =? init_bar then keep_bars init_bar r
      else TBar k :: toks ++ keep_bars k r
  end.

Record cstate := mkCS {
  cs_L : Z; cs_prevL : Z; cs_first_sig : bool;
  cs_bar : Z; cs_beat : Z; cs_started : Z * Z;
  cs_chords : list Z;                 (* durations, most recent first *)
  cs_any : bool;                      (* score is not None *)
  cs_pickup : Z }.

Definition cs_init : cstate := mkCS 0 0 true 0 0 (0, 0) [] false 0.

Definition step (s : cstate) (t : token) : cstate :=
  match t with
  | TSig l =>
      mkCS l (if cs_first_sig s then l else cs_L s) false (cs_bar s) (cs_beat s) (cs_started s) (cs_chords s) (cs_any s) (cs_pickup s)
  | TBar k => mkCS (cs_L s) (cs_prevL s) (cs_first_sig s) k 0 (cs_started s) (cs_chords s) (cs_any s) (cs_pickup s)
  | TBeat p =>
      mkCS (cs_L s) (cs_prevL s) (cs_first_sig s) (cs_bar s) (if p <=? cs_beat s then cs_beat s else p)
           (cs_started s) (cs_chords s) (cs_any s) (cs_pickup s)
  | TChord =>
      let chords :=
        if cs_any s then
          let d := cs_prevL s * (cs_bar s - fst (cs_started s)) + (cs_beat s - snd (cs_started s)) in
          match cs_chords s with
          | [] => []
          | _ :: r => if d =? 0 then r else d :: r
          end
        else cs_chords s in
      mkCS (cs_L s) (cs_L s) (cs_first_sig s) (cs_bar s) (cs_beat s) (cs_bar s, cs_beat s)
           ((cs_L s - cs_beat s) :: chords) true
           (if negb (cs_any s) && (0 <? cs_beat s) then cs_beat s else cs_pickup s)
  end.

(* 4/4 is the initial signature (bar length given in ticks by the harness) *)
Definition run_tokens (l44 : Z) (toks : list token) : cstate :=
  fold_left step toks (mkCS l44 l44 true 0 0 (0, 0) [] false 0).

Definition chord_durations (l44 : Z) (toks : list token) : list Z := rev (cs_chords (run_tokens l44 toks)).

Definition check_clock (x : Z * list token * (list Z * Z)) : bool :=
  let '(l44, toks, (durs, pickup)) := x in
  list_eqb Z.eqb (chord_durations l44 toks) durs && (cs_pickup (run_tokens l44 toks) =? pickup).

(* Shared object shapes of the MusicLang model (hand-written).
   Integers are unbounded Z, as Python's are.  Names that are data
   (figures, modifier names, instrument names) are Coq strings. *)
From Coq Require Export String ZArith List Bool.
Export ListNotations.
Open Scope Z_scope.

(* the nine modes, in the order of constants.SCALES *)
Inductive mode := MMaj | MMin | MMel | MDor | MPhr | MLyd | MMix | MAeo | MLoc.

Definition all_modes : list mode :=
  [MMaj; MMin; MMel; MDor; MPhr; MLyd; MMix; MAeo; MLoc].

Definition mode_eqb (a b : mode) : bool :=
  match a, b with
  | MMaj, MMaj | MMin, MMin | MMel, MMel | MDor, MDor | MPhr, MPhr
  | MLyd, MLyd | MMix, MMix | MAeo, MAeo | MLoc, MLoc => true
  | _, _ => false
  end.

(* note kinds: s h c b a d x r l ; direction for the relative kinds *)
Inductive kind := KS | KH | KC | KB | KA | KD | KX | KR | KL.
Inductive dir := Abs | Up | Down.
Inductive accident := AMin | AMaj | ANat | ADim | AAug.

Definition all_accidents := [AMin; AMaj; ANat; ADim; AAug].

Definition kind_eqb (a b : kind) : bool :=
  match a, b with
  | KS, KS | KH, KH | KC, KC | KB, KB | KA, KA | KD, KD | KX, KX | KR, KR | KL, KL => true
  | _, _ => false
  end.

Definition dir_eqb (a b : dir) : bool :=
  match a, b with Abs, Abs | Up, Up | Down, Down => true | _, _ => false end.

(* pitch-level note: what Chord.to_pitch looks at *)
Record pnote := mkP {
  pkind : kind; pdir : dir; pval : Z; poct : Z;
  pmode : option mode; pacc : option accident }.

Definition plain (k : kind) (v o : Z) : pnote := mkP k Abs v o None None.

Record tonality := mkT { tdeg : Z; tmode : mode; toct : Z }.

(* parsed extension: figure + sorted modifier lists (get_extension_properties) *)
Record extension := mkE {
  fig : string; repl : list string; adds : list string; rems : list string }.

Definition bare (f : string) : extension := mkE f [] [] [].

Record chord := mkC { celem : Z; cext : extension; cton : tonality; coct : Z }.

(* option helpers *)
Definition obind {A B} (o : option A) (f : A -> option B) : option B :=
  match o with Some a => f a | None => None end.
Notation "'do' x <- o ;; k" := (obind o (fun x => k)) (at level 200, x pattern, o at level 100, k at level 200).

Fixpoint assoc {B} (k : string) (l : list (string * B)) : option B :=
  match l with
  | [] => None
  | (k', v) :: r => if String.eqb k k' then Some v else assoc k r
  end.

Definition option_eqb {A} (e : A -> A -> bool) (a b : option A) : bool :=
  match a, b with
  | Some x, Some y => e x y
  | None, None => true
  | _, _ => false
  end.

Fixpoint list_eqb {A} (e : A -> A -> bool) (a b : list A) : bool :=
  match a, b with
  | [], [] => true
  | x :: a', y :: b' => e x y && list_eqb e a' b'
  | _, _ => false
  end.

(* indices (as nat) of the cases on which a boolean check fails: what the
   correspondence files print *)
Fixpoint bad_from {A} (chk : A -> bool) (i : nat) (l : list A) : list nat :=
  match l with
  | [] => []
  | x :: r => if chk x then bad_from chk (S i) r else i :: bad_from chk (S i) r
  end.
Definition bad {A} (chk : A -> bool) (l : list A) : list nat := bad_from chk 0 l.

(* Full notes, their printed code (Note.to_code as a structured value), and the
   equality / hashing functions: Note.__eq__/__hash__, Melody.__eq__ (equality of
   the printed code), Tonality.__eq__ (Ton.v), Chord.chord_equals/score_equals/
   __eq__/__hash__, Score.__eq__. *)
From ML Require Import Model.Types gen.Tables Model.Pitch Model.Ton Model.Tags.
From Coq Require Import QArith.
Open Scope Z_scope.

Record fnote := mkF {
  fk : kind; fd : dir; fv : Z; fo : Z; fdur : Q;
  fmode : option mode; facc : option accident; famp : Q; ftags : list string }.

Definition is_note_kind (k : kind) : bool :=
  match k with KR | KL | KD | KX => false | _ => true end.

Definition acc_eqb (a b : accident) : bool :=
  match a, b with
  | AMin, AMin | AMaj, AMaj | ANat, ANat | ADim, ADim | AAug, AAug => true
  | _, _ => false
  end.

(* Note.__eq__ : type, val, duration, octave, mode *)
Definition note_eqb (a b : fnote) : bool :=
  kind_eqb (fk a) (fk b) && dir_eqb (fd a) (fd b) && (fv a =? fv b) && Qeq_bool (fdur a) (fdur b) &&
  (fo a =? fo b) && option_eqb mode_eqb (fmode a) (fmode b).

(* the tuple the repaired Note.__hash__ hashes (durations are normalised Fractions) *)
Definition note_hash_key (a : fnote) : kind * dir * Z * Q * Z * option mode :=
  (fk a, fd a, fv a, Qred (fdur a), fo a, fmode a).

(* dynamics figure: NoteProperties.amp_figure on exact rationals *)
Inductive ampfig := Fn | Fppp | Fpp | Fp | Fmp | Fmf | Ff | Fff | Ffff.
Definition ampfig_eqb (a b : ampfig) : bool :=
  match a, b with
  | Fn, Fn | Fppp, Fppp | Fpp, Fpp | Fp, Fp | Fmp, Fmp | Fmf, Fmf | Ff, Ff | Fff, Fff | Ffff, Ffff => true
  | _, _ => false
  end.
Definition amp_figure (amp : Q) : ampfig :=
  let x := (amp / 120)%Q in
  if Qle_bool x 0 then Fn
  else if Qle_bool x (16 # 100) then Fppp
  else if Qle_bool x (26 # 100) then Fpp
  else if Qle_bool x (36 # 100) then Fp
  else if Qle_bool x (50 # 100) then Fmp
  else if Qle_bool x (65 # 100) then Fmf
  else if Qle_bool x (80 # 100) then Ff
  else if Qle_bool x (90 # 100) then Fff
  else Ffff.

(* Note.to_code, as the tuple of the components it prints (each printer is injective) *)
Record ncode := mkN {
  c_kind : kind; c_dir : dir; c_val : option Z; c_dur : Q; c_oct : option Z;
  c_mode : option mode; c_acc : option accident; c_amp : option ampfig; c_tags : list string }.

Definition note_code (n : fnote) : ncode :=
  let isn := is_note_kind (fk n) in
  let isd := kind_eqb (fk n) KD in
  let isx := kind_eqb (fk n) KX in
  mkN (fk n) (fd n)
      (if isn || isd || isx then Some (fv n) else None)
      (Qred (fdur n))
      (if negb (fo n =? 0) then Some (fo n) else None)                 (* also printed for rests / continuations: r.oabs(1) *)
      (fmode n)
      (facc n)
      (if isn || isx || isd then (let f := amp_figure (famp n) in if ampfig_eqb f Fmf then None else Some f) else None)
      (sort_tags (ftags n)).                                           (* the tag SET, listed in sorted order *)

Definition ncode_eqb (a b : ncode) : bool :=
  kind_eqb (c_kind a) (c_kind b) && dir_eqb (c_dir a) (c_dir b) && option_eqb Z.eqb (c_val a) (c_val b) &&
  Qeq_bool (c_dur a) (c_dur b) && option_eqb Z.eqb (c_oct a) (c_oct b) && option_eqb mode_eqb (c_mode a) (c_mode b) &&
  option_eqb acc_eqb (c_acc a) (c_acc b) && option_eqb ampfig_eqb (c_amp a) (c_amp b) &&
  list_eqb String.eqb (c_tags a) (c_tags b).

(* Melody.__eq__ : str(other) == str(self) *)
Definition melody := list fnote.
Definition melody_eqb (a b : melody) : bool := list_eqb ncode_eqb (map note_code a) (map note_code b).

(* chords with their parts (dict: insertion-ordered, unique keys) *)
Record fchord := mkFC { fc : chord; fparts : list (string * melody) }.

Fixpoint plookup (k : string) (d : list (string * melody)) : option melody :=
  match d with [] => None | (k', v) :: r => if String.eqb k k' then Some v else plookup k r end.

(* dict.__eq__ : same size and every key of the left maps to an equal value on the right *)
Definition dict_eqb (a b : list (string * melody)) : bool :=
  Nat.eqb (length a) (length b) &&
  forallb (fun kv => match plookup (fst kv) b with Some v => melody_eqb (snd kv) v | None => false end) a.

Definition ext_str_eqb (a b : extension) : bool :=
  String.eqb (fig a) (fig b) && list_eqb String.eqb (repl a) (repl b) &&
  list_eqb String.eqb (adds a) (adds b) && list_eqb String.eqb (rems a) (rems b).

Definition chord_equals (a b : chord) : bool :=
  (celem a =? celem b) && ext_str_eqb (cext a) (cext b) && ton_eqb (cton a) (cton b) && (coct a =? coct b).

Definition fchord_eqb (a b : fchord) : bool := chord_equals (fc a) (fc b) && dict_eqb (fparts a) (fparts b).

Definition score_eqb (a b : list fchord) : bool := list_eqb fchord_eqb a b.

(* ---- correspondence checkers ---- *)
Definition check_note_eq (x : fnote * fnote * bool) : bool :=
  let '(a, b, r) := x in Bool.eqb (note_eqb a b) r.
Definition check_melody_eq (x : melody * melody * bool) : bool :=
  let '(a, b, r) := x in Bool.eqb (melody_eqb a b) r.
Definition check_chord_eq (x : fchord * fchord * bool) : bool :=
  let '(a, b, r) := x in Bool.eqb (fchord_eqb a b) r.
Definition check_score_eq (x : list fchord * list fchord * bool) : bool :=
  let '(a, b, r) := x in Bool.eqb (score_eqb a b) r.
Definition check_amp_figure (x : Q * ampfig) : bool :=
  let '(a, r) := x in ampfig_eqb (amp_figure a) r.

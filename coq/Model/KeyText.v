(* CurrentTonality.init (musiclang/analyze/score_formatter_elements.py): the key written in an annotation, inline
   ("eb:") or in a "Tonality: eb" header.  The colon is dropped; the first character is the tonic letter (upper case =
   major, lower case = minor); every '#' after it raises the tonic by a semitone, every 'b' or '-' lowers it.
   The result is not reduced modulo 12 (Tonality does that).  key_of_text_old is the function before the repair 82a2afd:
   it removed every 'b' from the text to find the letter and counted the flats over the whole text. *)
From Coq Require Import ZArith List String Ascii Bool.
Import ListNotations.
Open Scope Z_scope.

Definition letter_pc (c : ascii) : option Z :=
  match c with
  | "C" | "c" => Some 0 | "D" | "d" => Some 2 | "E" | "e" => Some 4 | "F" | "f" => Some 5
  | "G" | "g" => Some 7 | "A" | "a" => Some 9 | "B" | "b" => Some 11
  | _ => None
  end%char.

(* str.upper() == str, for the characters that can be a tonic letter *)
Definition is_upper (c : ascii) : bool :=
  match c with "C" | "D" | "E" | "F" | "G" | "A" | "B" => true | _ => false end%char.

Fixpoint scount (c : ascii) (s : string) : Z :=
  match s with EmptyString => 0 | String x r => (if Ascii.eqb x c then 1 else 0) + scount c r end.

Fixpoint sremove (c : ascii) (s : string) : string :=
  match s with EmptyString => EmptyString | String x r => if Ascii.eqb x c then sremove c r else String x (sremove c r) end.

(* (tonic, minor?) ; None = the parser raises (empty text, unknown letter) *)
Definition key_of_text (text : string) : option (Z * bool) :=
  match sremove ":"%char text with
  | EmptyString => None
  | String l acc =>
      match letter_pc l with
      | Some pc => Some (pc + scount "#"%char acc - scount "b"%char acc - scount "-"%char acc, negb (is_upper l))
      | None => None
      end
  end.

Definition key_of_text_old (text : string) : option (Z * bool) :=
  match sremove "-"%char (sremove "b"%char (sremove "#"%char (sremove ":"%char text))) with
  | EmptyString => Some (0 + scount "#"%char text - scount "b"%char text - scount "-"%char text, false)   (* ''.index -> 0, '' is "upper" *)
  | String l EmptyString =>
      match letter_pc l with
      | Some pc => Some (pc + scount "#"%char text - scount "b"%char text - scount "-"%char text, negb (is_upper l))
      | None => None
      end
  | _ => None
  end.

Definition check_key_text (x : string * option (Z * bool)) : bool :=
  let '(t, r) := x in
  match key_of_text t, r with
  | Some (k, m), Some (k', m') => (k =? k') && Bool.eqb m m'
  | None, None => true
  | _, _ => false
  end.

(* Spec of C01/C02: tonal theory in closed form, no reference to how the code
   computes anything. *)
From ML Require Import Model.Types.
Open Scope Z_scope.

Definition major : list Z := [0; 2; 4; 5; 7; 9; 11].

(* k-th note (k in Z) of the infinite ascending 7-note scale S based at b *)
Definition deg (b : Z) (S : list Z) (k : Z) : Z :=
  b + nth (Z.to_nat (k mod 7)) S 0 + 12 * (k / 7).

Definition idx7 : list Z := [0; 1; 2; 3; 4; 5; 6].

(* the scale started on degree k of S, re-based at 0 *)
Definition rotation (S : list Z) (k : Z) : list Z :=
  map (fun i => deg 0 S (k + i) - deg 0 S k) idx7.

Fixpoint raise_at (i : nat) (l : list Z) : list Z :=
  match l, i with
  | [], _ => []
  | x :: r, O => (x + 1) :: r
  | x :: r, S j => x :: raise_at j r
  end.

(* the nine documented modes *)
Definition spec_mode (md : mode) : list Z :=
  match md with
  | MMaj => rotation major 0
  | MDor => rotation major 1
  | MPhr => rotation major 2
  | MLyd => rotation major 3
  | MMix => rotation major 4
  | MAeo => rotation major 5
  | MLoc => rotation major 6
  | MMin => raise_at 6 (rotation major 5)                 (* harmonic minor *)
  | MMel => raise_at 5 (raise_at 6 (rotation major 5))    (* melodic minor *)
  end.

(* base pitch of a tonality, and the chord's own infinite scale:
   degree j of the chord on element e = degree e+j of the tonality *)
Definition ton_base (t : tonality) : Z := tdeg t + 12 * toct t.

Definition chord_deg_in (md : mode) (c : chord) (j : Z) : Z :=
  deg (ton_base (cton c)) (spec_mode md) (celem c + j) + 12 * coct c.

Definition chord_deg (c : chord) (j : Z) : Z := chord_deg_in (tmode (cton c)) c j.

(* mode seen by a note: its own if it carries one *)
Definition note_mode (c : chord) (n : pnote) : mode :=
  match pmode n with Some md => md | None => tmode (cton c) end.

(* golden accidental cells (semitones above the chord root) *)
Definition ACC_GOLDEN (v : Z) (a : accident) : option Z :=
  match v, a with
  | 0, AAug => Some 1 | 0, _ => Some 0
  | 1, (AMin | ADim) => Some 1 | 1, _ => Some 2
  | 2, (AMin | ADim) => Some 3 | 2, _ => Some 4
  | 3, AAug => Some 6 | 3, _ => Some 5
  | 4, ADim => Some 6 | 4, _ => Some 7
  | 5, (AMin | ADim) => Some 8 | 5, _ => Some 9
  | 6, (AMin | ADim) => Some 10 | 6, _ => Some 11
  | _, _ => None
  end.

(* stacked thirds and inversions, as scale degrees of the chord *)
Definition thirds (n : nat) : list Z := map (fun i => 2 * Z.of_nat i) (seq 0 n).

Definition figure_size (f : string) : option nat :=
  if existsb (String.eqb f) [""; "5"; "6"; "64"]%string then Some 3%nat
  else if existsb (String.eqb f) ["7"; "65"; "43"; "2"]%string then Some 4%nat
  else if String.eqb f "9" then Some 5%nat
  else if String.eqb f "11" then Some 6%nat
  else if String.eqb f "13" then Some 7%nat
  else None.

Definition figure_inversion (f : string) : nat :=
  if existsb (String.eqb f) ["6"; "65"]%string then 1
  else if existsb (String.eqb f) ["64"; "43"]%string then 2
  else if String.eqb f "2" then 3 else 0.

(* inversion i: the first i tones go on top, an octave (7 degrees) higher *)
Definition invert_degs (i : nat) (l : list Z) : list Z :=
  skipn i l ++ map (fun d => d + 7) (firstn i l).

Definition root_degs (f : string) : option (list Z) := option_map thirds (figure_size f).
Definition bass_degs (f : string) : option (list Z) :=
  option_map (invert_degs (figure_inversion f)) (root_degs f).

(* walking an arpeggio of n tones: tone v mod n, raised v / n + o octaves *)
Definition arp_pitch (arp : list Z) (v o : Z) : Z :=
  let n := Z.of_nat (length arp) in
  nth (Z.to_nat (v mod n)) arp 0 + 12 * (v / n + o).

Definition all_figures : list string := [""; "5"; "6"; "64"; "7"; "65"; "43"; "2"; "9"; "11"; "13"]%string.

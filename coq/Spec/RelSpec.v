(* Spec of C09: a system = strictly ascending pitch classes in [0,12); its
   pitches are enumerated by the increasing bijection sidx : Z -> Z; relative
   motion is arithmetic on ranks.  No window, no lists of candidates. *)
From ML Require Import Model.Types.
Open Scope Z_scope.

Definition slen (S : list Z) : Z := Z.of_nat (length S).

(* j-th system pitch *)
Definition sidx (S : list Z) (j : Z) : Z :=
  nth (Z.to_nat (j mod slen S)) S 0 + 12 * (j / slen S).

Definition count_lt (S : list Z) (r : Z) : Z := slen (filter (fun s => s <? r) S).
Definition count_le (S : list Z) (r : Z) : Z := slen (filter (fun s => s <=? r) S).

(* least j with sidx j >= p ; greatest j with sidx j <= p *)
Definition rank_ge (S : list Z) (p : Z) : Z := slen S * (p / 12) + count_lt S (p mod 12).
Definition rank_le (S : list Z) (p : Z) : Z := slen S * (p / 12) + count_le S (p mod 12) - 1.

Definition in_sys (S : list Z) (p : Z) : bool := existsb (Z.eqb (p mod 12)) S.

(* k >= 1 steps up: from a system pitch, k ranks higher; from outside, the
   nearest system pitch above is step 1 *)
Definition spec_up (S : list Z) (k p : Z) : Z :=
  sidx S (rank_ge S p + k - (if in_sys S p then 0 else 1)).
Definition spec_down (S : list Z) (k p : Z) : Z :=
  sidx S (rank_le S p - k + (if in_sys S p then 0 else 1)).

(* total = signed step count (value + size * octave, negated for a down note) *)
Definition spec_rel (S : list Z) (total p : Z) : Z :=
  if 0 <? total then spec_up S total p
  else if total <? 0 then spec_down S (- total) p
  else if in_sys S p then p
  else let u := sidx S (rank_ge S p) in let d := sidx S (rank_le S p) in
       if Z.abs (u - p) <=? Z.abs (d - p) then u else d.

Fixpoint ascending (l : list Z) : bool :=
  match l with
  | x :: ((y :: _) as r) => (x <? y) && ascending r
  | _ => true
  end.

Definition sys_ok (S : list Z) : bool :=
  negb (match S with [] => true | _ => false end) && ascending S && forallb (fun s => (0 <=? s) && (s <? 12)) S.

(* Spec of C10: the documented duration table, by formula. *)
From ML Require Import Model.Types.
From Coq Require Import QArith.
Open Scope Q_scope.

Definition bases : list (string * Q) :=
  [("w"%string, 4); ("h"%string, 2); ("q"%string, 1); ("e"%string, 1 # 2); ("s"%string, 1 # 4); ("t"%string, 1 # 8)].

(* plain, dotted x3/2, n-tuplets x2/n ; "n" = 0 *)
Definition spec_table : list (string * Q) :=
  ("n"%string, 0) ::
  flat_map (fun bv => let '(b, v) := bv in
    [(b, v); (String.append b "d", v * (3 # 2)); (String.append b "3", v * (2 # 3));
     (String.append b "5", v * (2 # 5)); (String.append b "7", v * (2 # 7))]) bases.

(* Spec of C03: the sounding notes of a part.  A part is flattened to a timeline
   of items - a note with its chord and onset, or a gap where the part is absent
   from a chord.  No rows, no flags, no per-track dictionaries. *)
From ML Require Import Model.Types Model.Pitch Model.Rel Model.Render.
Open Scope Z_scope.
Open Scope list_scope.

Inductive item := INote (c : chord) (n : tnote) (onset : Z) | IGap.

(* notes of one chord: each starts where the previous one ends *)
Fixpoint part_items (m : list tnote) (c : chord) (t : Z) : list item :=
  match m with [] => [] | n :: r => INote c n t :: part_items r c (t + tdur n) end.

(* chords follow one another, each lasting as long as its longest part *)
Fixpoint items (s : rscore) (track : string) (t : Z) : list item :=
  match s with
  | [] => []
  | c :: r => (match plook track (rparts c) with Some p => part_items p (rc c) t | None => [IGap] end)
              ++ items r track (t + rchord_dur c)
  end.

(* total duration of the continuations that directly follow *)
Fixpoint run (l : list item) : Z :=
  match l with
  | INote _ n _ :: r => if is_cont n then tdur n + run r else 0
  | _ => 0
  end.

Record snote := mkSN { s_pitch : Z; s_on : Z; s_dur : Z; s_vel : Z }.

(* ref = the last sounded pitch of the part since it was last absent (0 for a leading relative note).
   A rest or continuation never sounds by itself; a continuation only lengthens the note it follows. *)
Fixpoint sounding (ref : option Z) (l : list item) : option (list snote) :=
  match l with
  | [] => Some []
  | IGap :: r => sounding None r
  | INote c n t :: r =>
      if is_rest n || is_cont n then sounding ref r
      else
        do pr <- pitch_full c (tn n) (match ref with Some p => p | None => 0 end) ;;
        let p := match pr with Some p => p | None => 0 end in
        do rest <- sounding (Some p) r ;;
        Some (mkSN p t (tdur n + run r) (tamp n) :: rest)
  end.

Definition sounding_of (s : rscore) (track : string) : option (list snote) := sounding None (items s track 0).

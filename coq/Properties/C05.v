(* C05 - the text form of any object evaluates back to an equal object.
   Statements only; proofs in Proofs/TextProofs.v.  The text is modelled as structured text (base library symbol +
   attribute accesses/calls); its rendering equals the printed string character for character and its evaluation equals
   Python's eval of that string on every case of the correspondence check. *)
From ML Require Import Model.Types gen.Tables Model.Pitch Model.Ext Model.Ton Model.Code Model.Text Proofs.TextProofs.
From Coq Require Import QArith.
Open Scope Z_scope.
Open Scope list_scope.

(* every note built from a library symbol (any family, value in the library range, ANY octave, any duration with
   denominator <= 1000 - named or .augment -, any per-note mode, accidental, amplitude and tag set) evaluates back to a
   note with the same kind, direction, value, octave, duration, mode, accidental, dynamics figure and tags *)
Theorem C05_note_roundtrip : forall n, wf_note n -> exists n', eval_note (note_text n) = Some n' /\ same_note n n' = true.
Proof. exact note_roundtrip. Qed.

Theorem C05_melody_roundtrip : forall m, Forall wf_note m ->
  exists m', omap' eval_note (map note_text m) = Some m' /\ same_melody m m' = true.
Proof. exact melody_roundtrip. Qed.

(* tonalities: all 12 tonics (printed with sharps/flats), every mode, EVERY octave *)
Theorem C05_tonality_roundtrip : forall t, 0 <= tdeg t < 12 -> exists x, ton_text t = Some x /\ eval_ton x = Some t.
Proof. exact ton_roundtrip. Qed.

(* chords: degree, extension (any valid one in normal form, with modifiers), tonality, octave, parts in order, notes *)
Theorem C05_chord_roundtrip : forall c, wf_chord c ->
  exists t c', chord_text c = Some t /\ eval_chord t = Some c' /\ same_fchord c c' = true.
Proof. exact chord_roundtrip. Qed.

Theorem C05_score_roundtrip : forall s, Forall wf_chord s ->
  exists ts s', omap' chord_text s = Some ts /\ omap' eval_chord ts = Some s' /\ list_eqb same_fchord s s' = true.
Proof. exact score_roundtrip. Qed.

(* the two tables the printer and the evaluator use agree (regenerated from constants.py / note_properties.py) *)
Theorem C05_duration_names_consistent :
  forallb (fun kv => match assoc (snd kv) STR_TO_DURATION with Some q => Qeq_bool q (fst kv) | None => false end) DURATION_TO_STR = true.
Proof. exact duration_names_consistent. Qed.

Theorem C05_dynamics_consistent :
  forallb (fun f => match assoc (fig_name f) AMP_OF_FIGURE with Some a => ampfig_eqb (amp_figure a) f | None => false end)
          [Fppp; Fpp; Fp; Fmp; Ff; Fff; Ffff] = true /\
  amp_figure DEFAULT_AMP = Fmf /\ amp_figure 0 = Fn.
Proof. exact figures_consistent. Qed.

(* non-vacuity: a relative note with every field set is well formed, prints as the library prints it and reads back *)
Example C05_ex_note :
  let n := mkF KS Down 3 (-2) (7 # 3) (Some MLyd) (Some ADim) (30 # 1) ["a"; "b"]%string in
  ntext_str (note_text n) = "sd3.augment(frac(7, 3)).oabs(-2).lydian.dim.pp.add_tags({'a', 'b'})"%string /\
  option_map (same_note n) (eval_note (note_text n)) = Some true.
Proof. split; vm_compute; reflexivity. Qed.

Example C05_ex_wf : wf_note (mkF KS Down 3 (-2) (7 # 3) (Some MLyd) (Some ADim) (30 # 1) ["a"; "b"]%string).
Proof.
  constructor.
  - eexists. vm_compute. reflexivity.
  - vm_compute. discriminate.
  - vm_compute. discriminate.
  - cbn [ftags]. constructor; [intros [H|[]]; discriminate|]. constructor; [intros []|constructor].
Qed.

(* ... and so is a rest that carries an octave, a per-note mode and an accidental (r.oabs(1).m.dim): it prints them and reads back *)
Example C05_ex_rest :
  let n := mkF KR Abs 0 1 (1 # 2) (Some MMin) (Some ADim) (66 # 1) [] in
  ntext_str (note_text n) = "r.e.oabs(1).m.dim"%string /\ option_map (same_note n) (eval_note (note_text n)) = Some true.
Proof. split; vm_compute; reflexivity. Qed.

Example C05_ex_chord :
  let c := mkFC (mkC 4 (mkE "65" ["sus4"]%string ["add9"]%string []) (mkT 1 MMin 1) 2)
                [("piano__0"%string, [mkF KS Abs 0 0 (1 # 2) None None (66 # 1) []; mkF KR Abs 0 0 (3 # 2) None None (66 # 1) []])] in
  option_map ctext_str (chord_text c) =
    Some ("(V['65(sus4)[add9]'] % II.b.m.o(1)).o(2)(" ++ nl ++ tab ++ "piano__0=s0.e + r.qd)")%string /\
  (do t <- chord_text c ;; do c' <- eval_chord t ;; Some (same_fchord c c')) = Some true.
Proof. split; vm_compute; reflexivity. Qed.

(* C16 - realising ornaments keeps every note's time span.  Statements only; proofs in Proofs/OrnProofs.v.
   ideal t c d = the figure of tag t in exact arithmetic; realize = the library's builder (with
   limit_denominator(1000) inside set_duration) followed by realize_tags' final assertion. *)
From ML Require Import Model.Types gen.Tables Model.Dur Model.Orn Model.OrnAll Proofs.DurProofs Proofs.OrnProofs Proofs.OrnAllProofs.
From Coq Require Import QArith.
Open Scope Q_scope.

(* for each of the 15 tags, every duration d >= 0 and every neighbouring-note context:
   the pieces of the figure sum to d *)
Theorem C16_sum : forall t c d, 0 <= d -> qsum (ideal t c d) == d.
Proof. exact ideal_sum. Qed.

(* ... and every piece has a non-negative duration *)
Theorem C16_nonneg : forall t c d, 0 <= d -> Forall (fun x => 0 <= x) (ideal t c d).
Proof. exact ideal_nonneg. Qed.

(* the library's builders are these figures whenever every piece is on the library's rational resolution *)
Theorem C16_model_is_ideal : forall t c d, forallb fits (ideal t c d) = true ->
  Forall2 Qeq (build_with sd t c d) (ideal t c d).
Proof. exact build_exact. Qed.

(* realisation never fails, keeps the span, produces non-negative durations *)
Theorem C16_never_fails : forall t c d, 0 <= d -> forallb fits (ideal t c d) = true ->
  exists l, realize t c d = Some l /\ Forall2 Qeq l (ideal t c d) /\ qsum l == d /\ Forall (fun x => 0 <= x) l.
Proof. exact realize_ok. Qed.

(* melodies: if every note is replaced by pieces that sum to its duration, the total is unchanged *)
Theorem C16_total : forall (m : list Q) (r : list (list Q)),
  Forall2 (fun d l => qsum l == d) m r -> qsum (concat r) == qsum m.
Proof.
  intros m r H. induction H as [|d l m r Hd _ IH]; [reflexivity|].
  cbn [concat]. rewrite qsum_app, qsum_cons, Hd, IH. reflexivity.
Qed.

(* non-vacuity: the grupetto on a quarter note (the case that used to end with a negative piece) *)
(* combinations of tags: the builders run one after the other, each on the melody the previous ones produced
   (Melody.set_duration = augment by the ratio; .duration = the sum of the pieces).  For ANY list of tags - any subset, order
   and repetition - in any context and for any duration d >= 0, zero included, the realisation in exact arithmetic never
   fails, fills exactly the note's span and contains no negative duration *)
Theorem C16_combinations : forall c ts d, 0 <= d ->
  exists l, ideal_all c ts d = Some l /\ qsum l == d /\ Forall (fun x => 0 <= x) l.
Proof. exact combination_ok. Qed.

(* with the library's rounding (limit_denominator(1000) at every step), whatever realize_tags returns has the note's duration *)
Theorem C16_combinations_total : forall c ts d l, realize_all c ts d = Some l -> qsum l == d.
Proof. exact realize_all_total. Qed.

(* before the repair of Melody.set_duration a zero-length note with suspension_prev and suspension_prev_repeat raised *)
Theorem C16_combinations_before_repair_refuted :
  let c := mkCtx true true true 0 0 false false false 0 0 in
  pipeline idq false c [TSuspensionPrev; TSuspensionPrevRepeat] (mkO true [0]) = None /\
  pipeline sd false c [TSuspensionPrev; TSuspensionPrevRepeat] (mkO true [0]) = None /\
  realize_all c [TSuspensionPrev; TSuspensionPrevRepeat] 0 = Some [0; 0; 0].
Proof. exact combination_before_repair_refuted. Qed.

Example C16_ex : realize TGrupetto (mkCtx false true true 0 0 false false false 0 0) 1 = Some [0; 1 # 6; 1 # 6; 1 # 6; 1 # 2]
  /\ forallb fits (ideal TGrupetto (mkCtx false true true 0 0 false false false 0 0) 1) = true
  /\ realize TRoll (mkCtx false true true 0 0 false false false 0 0) (4 # 5) = Some [1 # 4; 1 # 4; 1 # 4; 1 # 20].
Proof. repeat split; vm_compute; reflexivity. Qed.

(* C12 - time slicing returns exactly the requested window and pieces re-join.
   Statements only; proofs in Proofs/SliceProofs.v.  Integer ticks; full_score = every chord has at least one
   part and every part lasts as long as its chord (the statement's guard), durations >= 0. *)
From ML Require Import Spec.RenderSpec.
From ML Require Import Model.Types gen.Tables Model.Pitch Model.Rel Model.Render Model.Slice Proofs.RenderProofs Proofs.SliceProofs Proofs.SliceContent Proofs.SliceZero Proofs.SliceRejoin Proofs.SliceScore Proofs.RenderTonProofs Proofs.RenderOctave Proofs.SliceSound Proofs.SliceSoundScore.
From Coq Require Import Lia.
Open Scope Z_scope.
Open Scope list_scope.

(* a melody window: never fails and lasts exactly the overlap of [start, end) with the melody,
   wherever the cut points fall (inside notes, on boundaries, beyond the end) *)
Theorem C12_melody_between : forall v time start end_, nonneg v -> start < end_ ->
  exists r, mel_between v time start end_ = Some r /\
            part_dur r = Z.max 0 (Z.min end_ (time + part_dur v) - Z.max start time) /\ nonneg r.
Proof. intros v. exact (mel_between_dur v). Qed.

(* a chord window keeps every part as long as the new chord *)
Theorem C12_chord_between : forall c s e, full_chord c -> rparts c <> [] -> 0 <= s -> s < e -> s < rchord_dur c ->
  exists c', chord_between c s e = Some c' /\ full_chord c' /\ rparts c' <> [] /\
             rchord_dur c' = Z.min e (rchord_dur c) - s /\ rc c' = rc c.
Proof. exact chord_between_dur. Qed.

(* the window [a, b) of a score lasts exactly min(b, total) - a *)
Theorem C12_duration : forall s a b, full_score s -> 0 <= a -> a < b -> a < score_dur s ->
  exists r, score_between s 0 a b = Some r /\ score_dur r = Z.min b (score_dur s) - a.
Proof. exact window_duration. Qed.

(* general form, any starting clock (used for every chord-selection boundary case: cut on a chord boundary,
   window ending exactly at a chord end, window beyond the end) *)
Theorem C12_duration_general : forall s time start end_, full_score s -> start < end_ ->
  exists r, score_between s time start end_ = Some r /\
            score_dur r = Z.max 0 (Z.min end_ (time + score_dur s) - Z.max start time) /\ full_score r.
Proof. intros s. exact (score_between_dur s). Qed.

(* cutting at t and concatenating the two pieces gives back the original duration *)
Theorem C12_rejoin_duration : forall s t, full_score s -> 0 < t -> t < score_dur s ->
  exists l r, score_between s 0 0 t = Some l /\ score_between s 0 t (score_dur s) = Some r /\
              score_dur (l ++ r) = score_dur s.
Proof. exact rejoin_duration. Qed.

(* repeating a score until a duration yields exactly that duration *)
Theorem C12_repeat_until : forall s d, full_score s -> 0 < d -> 0 < score_dur s ->
  exists r, repeat_until s d = Some r /\ score_dur r = d.
Proof. exact repeat_until_duration. Qed.

(* ... and until duration 0: the empty score (the library's None), lasting 0 *)
Theorem C12_repeat_until_zero : forall s, Forall (fun c => 0 <= rchord_dur c) s -> repeat_until s 0 = Some [] /\ score_dur [] = 0.
Proof. exact repeat_until_zero. Qed.

(* content of a window: get_melody_between returns exactly the notes of the part overlapping [a, b), in order, each clipped to the
   window; a note already sounding at a becomes a continuation; every other kept note keeps pitch, kind and dynamics *)
Theorem C12_melody_window_content : forall v t a b, positive v -> a < b -> mel_between v t a b = Some (clip_list v t a b).
Proof. exact mel_between_content. Qed.

(* ... and with zero-length notes in the part (durations >= 0): the same map, where a zero-length note is kept - unchanged - exactly
   when it STARTS inside [a, b); one sitting on the window start belongs to the window *)
Theorem C12_melody_window_content_zero : forall v t a b, nonneg v -> a < b -> mel_between v t a b = Some (clip0_list v t a b).
Proof. exact mel_between_content0. Qed.

Theorem C12_zero_length_note : forall a b t n, tdur n = 0 ->
  clip0 a b t n = if (a <=? t) && (t <? b) then Some (with_dur n 0) else None.
Proof. exact clip0_zero. Qed.

Theorem C12_zero_agrees : forall v t a b, a < b -> positive v -> clip0_list v t a b = clip_list v t a b.
Proof. intros v. exact (clip0_list_positive v). Qed.

Theorem C12_kept_note : forall a b t n x, clip a b t n = Some x ->
  0 < tdur x /\ tdur x = Z.min (t + tdur n) b - Z.max t a /\ (a <= t -> tn x = tn n /\ tamp x = tamp n) /\ (t < a -> x = continuation (tdur x)).
Proof. exact clip_some. Qed.

Theorem C12_chord_window_content : forall c a b, rparts c <> [] -> Forall (fun p => positive (snd p)) (rparts c) -> a < b ->
  chord_between c a b = Some (mkRC (rc c) (drop_empty_drums (map (fun p => (fst p, clip_list (snd p) 0 a b)) (rparts c)))).
Proof. exact chord_between_content. Qed.

(* re-joining: the windows [a, t) and [t, b) of a part lying inside [a, b], one after the other, are the part itself with the
   note held across t (if any) written as its head followed by a continuation ... *)
Theorem C12_windows_rejoin : forall v time a t b, positive v -> a <= time -> time + part_dur v <= b ->
  clip_list v time a t ++ clip_list v time t b = split_at v time t.
Proof. exact windows_rejoin. Qed.

(* ... which sounds exactly the same: same sounding notes (C03), whatever follows and whatever the reference pitch *)
Theorem C12_rejoin_sounds_the_same : forall c v time a t b tail ref, positive v -> a <= time -> time + part_dur v <= b ->
  sounding ref (part_items (clip_list v time a t ++ clip_list v time t b) c time ++ tail) = sounding ref (part_items v c time ++ tail).
Proof. exact rejoin_sounds_the_same. Qed.

(* WHAT THE WINDOW SOUNDS (one part under one chord; notes that need no reference pitch: scale, chromatic, chord-tone, bass-tone and
   absolute notes, rests, continuations; positive durations): the sounding notes (C03: pitch, onset, duration with its continuations,
   velocity) of the window [a, b) are exactly those of the part that START inside the window, clipped at b and shifted by -a; a note
   already sounding at a has become a continuation, which sounds nothing by itself.  Any clock t of the part, any reference pitches. *)
Theorem C12_window_sounding : forall a b c, a < b -> forall v t ref ref' sl, positive v ->
  forallb (item_ok plain_pitched) (part_items v c t) = true ->
  sounding ref (part_items v c t) = Some sl ->
  sounding ref' (part_items (clip_list v t a b) c (Z.max t a - a)) = Some (filter_map (win a b) sl).
Proof. exact window_sounding. Qed.

(* non-vacuity: s0 (2) + l (1) + s2 (3) + r (1) + s4 (2) under I of C major, window [1, 7): s0 was sounding at 1 and is silent in the
   window; s2 starts at 3 -> 2; s4 starts at 7: outside.  Window [0, 4): s0 keeps its continuation (3), s2 is clipped to 1 *)
Example C12_ex_window_sounding :
  let nt k v du := mkTN (mkP k Abs v 0 None None) du 66 in
  let c := mkC 0 (bare "") (mkT 0 MMaj 0) 0 in
  let v := [nt KS 0 2; nt KL 0 1; nt KS 2 3; nt KR 0 1; nt KS 4 2] in
  sounding None (part_items v c 0) = Some [mkSN 0 0 3 66; mkSN 4 3 3 66; mkSN 7 7 2 66] /\
  sounding None (part_items (clip_list v 0 1 7) c 0) = Some [mkSN 4 2 3 66] /\
  filter_map (win 1 7) [mkSN 0 0 3 66; mkSN 4 3 3 66; mkSN 7 7 2 66] = [mkSN 4 2 3 66] /\
  sounding None (part_items (clip_list v 0 0 4) c 0) = Some [mkSN 0 0 3 66; mkSN 4 3 1 66].
Proof. vm_compute. repeat split; reflexivity. Qed.

(* AT SCORE LEVEL.  The timeline of a part pairs each of its notes with the chord it is written under, chord after chord.
   For a score whose chords have parts with positive note lengths, and a (non-drum) part present in every chord and lasting
   each: the timeline of the part in the window [a, b) is the clip of its timeline in the score - the notes overlapping [a, b),
   cut to the window, a note already sounding at a becoming a continuation, each kept note under its own chord *)
Theorem C12_score_window_content : forall track s t a b w, String.prefix "drums" track = false ->
  clean_score s track -> a < b -> score_between s t a b = Some w -> tl w track = cclip (tl s track) t a b.
Proof. intros track s t a b w Hd. exact (score_between_timeline track Hd s t a b w). Qed.

Theorem C12_score_window_notes : forall track s a b w, String.prefix "drums" track = false -> clean_score s track -> a < b ->
  score_between s 0 a b = Some w ->
  map snd (tl w track) = clip_list (map snd (tl s track)) 0 a b /\ incl (map fst (tl w track)) (map fst (tl s track)).
Proof. intros track s a b w. exact (score_between_notes track s a b w). Qed.

(* THE STATEMENT'S FIRST SENTENCE, for a whole score: the window [a, b) of a score sounds, in every (non-drum) part that is present in
   every chord, lasts each and is made of notes that need no reference pitch, exactly the part's sounding notes that start inside the
   window, clipped at b and shifted by -a - each under the chord it is written under, wherever the chord boundaries fall *)
Theorem C12_score_window_sounding : forall track s a b w sl, String.prefix "drums" track = false ->
  full_score s -> clean_score s track -> 0 <= a -> a < b ->
  forallb (item_ok plain_pitched) (items s track 0) = true ->
  score_between s 0 a b = Some w -> sounding_of s track = Some sl ->
  sounding_of w track = Some (filter_map (win a b) sl).
Proof. exact score_window_sounding. Qed.

(* non-vacuity: I (s0 2, s1 2) + V (s2 held 4) in C major, window [1, 6): s0 is silent (already sounding), s1 starts at 1, the s2 of
   V (pitch 11) starts at 3 and is clipped to 2 *)
Example C12_ex_score_window_sounding :
  let nt k v du := mkTN (mkP k Abs v 0 None None) du 66 in
  let s := [mkRC (mkC 0 (bare "") (mkT 0 MMaj 0) 0) [("p"%string, [nt KS 0 2; nt KS 1 2])];
            mkRC (mkC 4 (bare "") (mkT 0 MMaj 0) 0) [("p"%string, [nt KS 2 4])]] in
  sounding_of s "p" = Some [mkSN 0 0 2 66; mkSN 2 2 2 66; mkSN 11 4 4 66] /\
  (do w <- score_between s 0 1 6 ;; sounding_of w "p") = Some [mkSN 2 1 2 66; mkSN 11 3 2 66] /\
  filter_map (win 1 6) [mkSN 0 0 2 66; mkSN 2 2 2 66; mkSN 11 4 4 66] = [mkSN 2 1 2 66; mkSN 11 3 2 66].
Proof. vm_compute. repeat split; reflexivity. Qed.

(* cutting a score at any time t inside it and putting the two pieces one after the other: the duration is the original's and
   every part present throughout SOUNDS exactly as before - the sounding notes of the Spec of C03 (pitch under its chord, onset,
   duration with the continuations, velocity), whichever note or chord boundary t falls on or in *)
Theorem C12_score_rejoin : forall track s t, String.prefix "drums" track = false -> full_score s -> clean_score s track ->
  0 < t < score_dur s ->
  exists w1 w2, score_between s 0 0 t = Some w1 /\ score_between s 0 t (score_dur s) = Some w2 /\
    score_dur (w1 ++ w2) = score_dur s /\ sounding_of (w1 ++ w2) track = sounding_of s track.
Proof. exact score_rejoin. Qed.

(* ... and at the two ends t = 0 and t = total, where one piece is the empty window (the library's None): the other piece is the
   window [0, b) with b at or beyond the end, which lasts and sounds exactly like the score *)
Theorem C12_score_whole_window : forall track s b, String.prefix "drums" track = false -> full_score s -> clean_score s track ->
  0 < score_dur s -> score_dur s <= b ->
  exists w, score_between s 0 0 b = Some w /\ score_dur w = score_dur s /\ sounding_of w track = sounding_of s track.
Proof. exact score_whole_window. Qed.

Example C12_ex_score_rejoin :
  let nt k v du := mkTN (mkP k Abs v 0 None None) du 66 in
  let s := [mkRC (mkC 0 (bare "") (mkT 0 MMaj 0) 0) [("p"%string, [nt KS 0 2; nt KS 1 2])];
            mkRC (mkC 4 (bare "") (mkT 0 MMaj 0) 0) [("p"%string, [nt KS 2 3])]] in
  (do w1 <- score_between s 0 0 3 ;; do w2 <- score_between s 0 3 7 ;; Some (map (fun c => map (fun n => (pkind (tn n), tdur n)) (part_of "p" c)) (w1 ++ w2)))
    = Some [[(KS, 2); (KS, 1)]; [(KL, 1)]; [(KS, 3)]] /\
  (do w1 <- score_between s 0 0 3 ;; do w2 <- score_between s 0 3 7 ;; sounding_of (w1 ++ w2) "p") = sounding_of s "p" /\
  sounding_of s "p" = Some [mkSN 0 0 2 66; mkSN 2 2 2 66; mkSN 11 4 3 66].
Proof. exact score_rejoin_ex. Qed.

(* non-vacuity *)
Example C12_ex :
  let nt k v du := mkTN (mkP k Abs v 0 None None) du 66 in
  let c := mkRC (mkC 0 (bare "") (mkT 0 MMaj 0) 0) [("piano__0"%string, [nt KS 0 4; nt KS 1 2]); ("violin__0"%string, [nt KS 4 6])] in
  full_score [c; c] /\ score_dur [c; c] = 12 /\
  option_map score_dur (score_between [c; c] 0 3 11) = Some 8 /\
  option_map (map rparts) (score_between [c; c] 0 3 7) =
    Some [[("piano__0"%string, [continuation 1; nt KS 1 2]); ("violin__0"%string, [continuation 3])];
          [("piano__0"%string, [nt KS 0 1]); ("violin__0"%string, [nt KS 4 1])]].
Proof.
  cbv zeta. split.
  - unfold full_score, full_chord, nonneg.
    repeat match goal with
    | |- Forall _ (rparts _) => cbn [rparts]
    | |- Forall _ (snd _) => cbn [snd]
    | |- Forall _ (_ :: _) => apply Forall_cons
    | |- Forall _ [] => apply Forall_nil
    | |- _ /\ _ => split
    | |- _ <> _ => discriminate
    end; cbn; try lia; reflexivity.
  - repeat split; vm_compute; reflexivity.
Qed.

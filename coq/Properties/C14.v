(* C14 - turning pitches and timed notes into notation is lossless.
   Statements only; proofs in Proofs/ImportProofs.v. *)
From ML Require Import Model.Types gen.Tables Model.Pitch Model.Rel Model.Render Model.Slice Model.Import Spec.PitchSpec Spec.RenderSpec.
From ML Require Import Proofs.PitchProofs Proofs.RenderProofs Proofs.ImportProofs Proofs.ImportContent.
Open Scope Z_scope.

(* for EVERY chord and EVERY pitch p in Z: notating p in the chord and reading it back gives p; the note is a scale
   note exactly when the pitch class belongs to the chord scale, and its value is normalised (0..6, resp. 0..11) *)
Theorem C14_parse_roundtrip : forall c p, elem_ok c ->
  exists n, parse c p = Some n /\ to_pitch_abs c n = Some (Some p) /\ pdir n = Abs /\ pacc n = None /\ pmode n = None /\
    ((pkind n = KS /\ 0 <= pval n < 7 /\ existsb (fun s => s mod 12 =? p mod 12) (map (chord_deg c) idx7) = true) \/
     (pkind n = KH /\ 0 <= pval n < 12 /\ existsb (fun s => s mod 12 =? p mod 12) (map (chord_deg c) idx7) = false)).
Proof. exact parse_roundtrip. Qed.

(* the core of import: for a monophonic voice (each note starts at or after the end of the previous one - or of the
   incoming tie - and starts inside the bar), the melody written for the bar lasts exactly the bar, whatever tie
   comes in and whatever tie goes out (and an outgoing tie is positive) *)
Theorem C14_bar_length : forall c notes bs be cont mel ret,
  bs < be -> notes <> [] ->
  monophonic (match cont with Some d => bs + d | None => bs end) notes ->
  (forall d, cont = Some d -> 0 <= d) ->
  Forall (fun n => i_start n < be) notes ->
  parse_voice c notes bs be cont = Some (mel, ret) ->
  part_dur mel = be - bs /\ (forall e, ret = Some e -> 0 < e).
Proof. exact parse_voice_fills_bar. Qed.

(* what is written for the bar, note by note: the incoming tie as a continuation (or a rest up to the first note), then for each
   input note a rest for the gap before it and the note - notated by Chord.parse, its own length cut at the bar line, its velocity -
   then a rest to the bar line; what the last note holds beyond the bar line goes out as the tie *)
Theorem C14_bar_content : forall c n0 notes bs be cont mel ret,
  bs < be ->
  monophonic (match cont with Some d => bs + d | None => bs end) (n0 :: notes) ->
  (forall d, cont = Some d -> 0 <= d) ->
  Forall (fun n => i_start n < be) (n0 :: notes) ->
  parse_voice c (n0 :: notes) bs be cont = Some (mel, ret) ->
  let le0 := match cont with Some d => bs + d | None => i_start n0 end in
  let fin := last_end le0 (n0 :: notes) in
  exists w, written c (n0 :: notes) le0 be = Some w /\
    mel = bar_prefix cont bs (i_start n0) ++ w ++ (if fin <? be then [silence (be - fin)] else []) /\
    ret = (if be <? fin then Some (fin - be) else None).
Proof. exact parse_voice_content. Qed.

(* losslessness, bar by bar: rendered by the Spec of C03 from the bar's start, the melody written for the bar sounds exactly the
   input notes - pitch (every chord, via the parse round trip), onset, duration cut at the bar line, velocity - whatever tie comes
   in; and exactly what was cut off is handed to the next bar, where it is written as a continuation (C14_bar_content with cont) *)
Theorem C14_bar_sounds : forall c n0 notes bs be cont mel ret ref,
  elem_ok c -> bs < be ->
  monophonic (match cont with Some d => bs + d | None => bs end) (n0 :: notes) ->
  (forall d, cont = Some d -> 0 <= d) ->
  Forall (fun n => i_start n < be) (n0 :: notes) ->
  parse_voice c (n0 :: notes) bs be cont = Some (mel, ret) ->
  sounding ref (part_items mel c bs) = Some (map (heard be) (n0 :: notes)) /\
  ret = (let fin := last_end (match cont with Some d => bs + d | None => i_start n0 end) (n0 :: notes) in
         if be <? fin then Some (fin - be) else None).
Proof. exact parse_voice_sounds. Qed.

Example C14_ex_bar :
  let c := mkC 0 (bare "") (mkT 0 MMaj 0) 0 in
  option_map (fun x => (map tdur (fst x), snd x)) (parse_voice c [mkIN 2 3 4 80; mkIN 3 7 7 90] 0 4 (Some 1)) = Some ([1; 1; 1; 1], Some 3) /\
  (do x <- parse_voice c [mkIN 2 3 4 80; mkIN 3 7 7 90] 0 4 (Some 1) ;; sounding None (part_items (fst x) c 0)) =
    Some [mkSN 4 2 1 80; mkSN 7 3 1 90].
Proof. exact parse_voice_sounds_ex. Qed.

(* non-vacuity: a note held over two bar lines, in a voice that starts nothing in the middle bar *)
Example C14_ex :
  let c := mkC 0 (bare "") (mkT 0 MMaj 0) 0 in
  option_map (map (fun ch => map (fun p => (fst p, map tdur (snd p))) (rparts ch)))
    (import_score [(c, 4, 4); (c, 4, 4); (c, 4, 4)] [("piano__0"%string, [mkIN 3 10 4 80; mkIN 10 12 7 80])])
  = Some [[("piano__0"%string, [3; 1])]; [("piano__0"%string, [4])]; [("piano__0"%string, [2; 2])]].
Proof. vm_compute. reflexivity. Qed.

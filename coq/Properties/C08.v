(* C08 - MusicXML/music21 export sounds the same as the MIDI rendering.
   Statements only; proofs in Proofs/MxlProofs.v.  The tie/rest state machine of the exporter is modelled
   (Model/Mxl.v) and tied to Score.to_music21 by correspondence; that the written voice is the list of sounding notes
   (and, for parts present throughout, the Spec of C03) is proved in Proofs/MxlSound.v. *)
From ML Require Import Model.Types gen.Tables Model.Pitch Model.Rel Model.Render Model.Slice Model.Mxl Spec.RenderSpec Proofs.MxlProofs Proofs.MxlVoice Proofs.MxlSound.
Open Scope Z_scope.

(* every cell of the three spelling tables (3 modes x 12 tonics x 7 degrees) spells the pitch class of its degree,
   the only names crossing an octave boundary being B# and Cb *)
Theorem C08_spelling_tables :
  forallb (fun md => forallb (fun t => forallb (cell_ok md t) degrees7) tonics) all_modes = true.
Proof. exact spelling_tables_ok. Qed.

(* the note written for pitch p has MIDI number 60 + p: every p in Z, all nine modes (the six church modes are
   spelled by pitch class), every chord - enharmonic spelling may differ, the sounding pitch never does *)
Theorem C08_spelled_midi : forall c p, 0 <= tdeg (cton c) < 12 -> spelled_midi c p = Some (p + 60).
Proof. exact spelled_midi_ok. Qed.

(* every exported voice lasts exactly as long as the score, and so does every prefix of chords: whatever a part does (absent from
   a chord, shorter than its chord, rests, ties in any state of the machine), the elements written for the next chord start at the
   sum of the chord durations before it - where the renderer of C03 starts them.  (drum / pattern notes write nothing: excluded) *)
Theorem C08_voice_lasts_the_score : forall s track out, writable_score s track -> voice_of s track = Some out -> mel_total out = score_dur s.
Proof. exact voice_lasts_the_score. Qed.

Theorem C08_voice_prefix : forall s1 track st out, writable_score s1 track ->
  fold_left (chord_step track) s1 (Some (mkVS None None true true, [])) = Some (st, out) -> mel_total out = score_dur s1.
Proof. exact voice_prefix_total. Qed.

(* the notes of a voice ARE the part's sounding notes.  Reading the written voice as music (a note element starts a sounding
   note at the sum of the durations before it; directly following tied elements prolong it; everything else is silence) gives,
   for every score whose present parts are non-empty and free of drum / pattern notes: each pitched note of the part, at its
   onset, with midi number 60 + the pitch rendered from the last sounded pitch of the part (kept through rests, chord changes
   and chords the part is absent from), lasting its own duration plus the continuations directly following it.
   events / esound / msound: Proofs/MxlSound.v *)
Theorem C08_voice_is_sounding : forall s track out, solid_score s track -> tonics_ok s -> voice_of s track = Some out ->
  esound None 0 (events s track) = Some (msound 0 out).
Proof. exact voice_is_sounding. Qed.

(* ... and when the part is present in every chord and lasts as long as each, these are exactly the sounding notes of the Spec
   of C03 (what the MIDI rendering plays): same onsets, same tied durations, pitch + 60 *)
Theorem C08_voice_is_rendering : forall s track out, solid_score s track -> tonics_ok s -> full_part s track ->
  voice_of s track = Some out -> exists l, sounding_of s track = Some l /\ msound 0 out = map to3 l.
Proof. exact voice_is_rendering. Qed.

Example C08_ex_sounding :
  let nt k v du := mkTN (mkP k Abs v 0 None None) du 66 in
  let s := [mkRC (mkC 0 (bare "") (mkT 1 MMin 0) 0) [("p"%string, [nt KS 6 2; nt KL 0 1; nt KR 0 1; nt KL 0 1; nt KS 2 1])];
            mkRC (mkC 4 (bare "") (mkT 1 MMin 0) 0) [("p"%string, [nt KL 0 1; nt KS 0 2])]] in
  option_map (msound 0) (voice_of s "p") = Some [(72, 0, 3); (64, 5, 2); (68, 7, 2)] /\
  option_map (map to3) (sounding_of s "p") = Some [(72, 0, 3); (64, 5, 2); (68, 7, 2)].
Proof. exact voice_is_rendering_ex. Qed.

(* non-vacuity: a tied chain in the first chord, a rest, a continuation after the rest, a chord change *)
Example C08_ex :
  let nt k v du := mkTN (mkP k Abs v 0 None None) du 66 in
  voice_of [mkRC (mkC 0 (bare "") (mkT 1 MMin 0) 0) [("p"%string, [nt KS 6 2; nt KL 0 1; nt KR 0 1; nt KL 0 1])];
            mkRC (mkC 4 (bare "") (mkT 1 MMin 0) 0) [("p"%string, [nt KL 0 1; nt KS 0 2])]] "p"
  = Some [(Some 72, 2, false); (Some 72, 1, true); (None, 1, false); (None, 1, false); (None, 1, false); (Some 68, 2, false)].
Proof. vm_compute. reflexivity. Qed.

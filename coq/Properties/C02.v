(* C02 - chord scales, chord tones, inversions and extension modifiers are well-formed.
   Statements only; proofs in Proofs/{PitchProofs,SortProofs,ExtProofs,PcsProofs}.v *)
From ML Require Import Model.Types gen.Tables Model.Pitch Model.Ext Spec.PitchSpec.
From ML Require Import Proofs.PitchProofs Proofs.SortProofs Proofs.ExtProofs Proofs.PcsDefs Proofs.PcsProofs.
From Coq Require Import Permutation.
Open Scope Z_scope.

(* each church mode is the corresponding rotation of the major scale; m / mm are harmonic / melodic minor *)
Theorem C02_modes_are_rotations :
  SCALES MMaj = rotation major 0 /\ SCALES MDor = rotation major 1 /\ SCALES MPhr = rotation major 2 /\
  SCALES MLyd = rotation major 3 /\ SCALES MMix = rotation major 4 /\ SCALES MAeo = rotation major 5 /\
  SCALES MLoc = rotation major 6 /\ SCALES MMin = raise_at 6 (rotation major 5) /\
  SCALES MMel = raise_at 5 (raise_at 6 (rotation major 5)).
Proof. repeat split; apply (mode_tables _). Qed.

(* the chord scale on degree d is the tonality's scale started on d (all tonalities, octaves in Z) *)
Theorem C02_chord_scale_is_rotation : forall c, elem_ok c ->
  chord_scale c = Some (map (fun j => deg (ton_base (cton c)) (spec_mode (tmode (cton c))) (celem c + j) + 12 * coct c) idx7).
Proof. exact chord_scale_spec. Qed.

(* chord tones are stacked thirds of that scale; figured-bass inversions rotate them *)
Theorem C02_chord_tones_stacked_thirds : forall c f, elem_ok c -> In f all_figures -> cext c = bare f ->
  chord_pitches c = option_map (map (chord_deg c)) (root_degs f) /\
  chord_extension_pitches c = option_map (map (chord_deg c)) (bass_degs f).
Proof. exact arpeggio_bare. Qed.

(* inversion i of a triad / seventh chord: the root-position tones rotated by i, wrapped tones an octave up
   (hence the same pitch classes and the bass = the i-th chord tone) *)
Theorem C02_inversion_rotation : forall c f, elem_ok c -> In f invertible_figures -> cext c = bare f ->
  exists cp, chord_pitches c = Some cp /\
    chord_extension_pitches c =
      Some (skipn (figure_inversion f) cp ++ map (fun p => p + 12) (firstn (figure_inversion f) cp))%list.
Proof. exact inversion_rotation. Qed.

(* ... strictly ascending within one octave *)
Theorem C02_inversion_shape : forall c f, elem_ok c -> In f invertible_figures -> cext c = bare f ->
  exists ep, chord_extension_pitches c = Some ep /\ asc ep = true /\ within_octave ep = true.
Proof. exact inversion_shape. Qed.

(* with modifiers: chord_pitches never depends on the inversion (any modifier lists) *)
Theorem C02_chord_pitches_ignore_inversion : forall c e e',
  root_figure (fig e) = root_figure (fig e') -> repl e = repl e' -> adds e = adds e' -> rems e = rems e' ->
  chord_pitches (with_ext c e) = chord_pitches (with_ext c e').
Proof. exact chord_pitches_family. Qed.

(* with modifiers, BOUNDED in the size of the modifier set (all 1082 sets of at most two of the 46 names,
   finite sweep in the kernel) and unbounded in degree/octaves: a valid inverted chord has the pitch classes
   of its root-position chord tones *)
Theorem C02_inversion_pitch_classes_upto2 : forall c f s,
  elem_ok c -> In f invertible_figures -> In s (subsets2 tagged) -> cext c = ext_of f s ->
  forall ep, chord_extension_pitches c = Some ep ->
  exists cp, chord_pitches c = Some cp /\ Permutation (map pc cp) (map pc ep).
Proof. exact inversion_pitch_classes. Qed.

(* inversion arithmetic for every k in Z *)
Theorem C02_invert_additive : forall f k1 k2 f2,
  invert_fig f k2 = Some f2 -> invert_fig f2 k1 = invert_fig f (k1 + k2).
Proof. exact invert_fig_add. Qed.

(* the explicit root position figure '5' (what I.o(1) builds) inverts like '' - never an error (repaired: it raised) *)
Theorem C02_invert_five : forall k, invert_fig "5" k = invert_fig "" k.
Proof. exact invert_fig_five. Qed.

Theorem C02_invert_chord_additive : forall c k1 k2 c2, invert c k2 = Some c2 ->
  invert c2 k1 = (do f <- invert_fig (fig (cext c)) (k1 + k2) ;;
                  getitem c2 (mkE f (repl (cext c2)) (adds (cext c2)) (rems (cext c2)))).
Proof. exact invert_add. Qed.

Theorem C02_invert_full_turn : forall f q,
  (sindex f four_family <> None -> invert_fig f (4 * q) = Some f) /\
  (sindex f three_family <> None -> sindex f four_family = None -> invert_fig f (3 * q) = Some f).
Proof. exact invert_fig_full_turn. Qed.

Theorem C02_inversion_index : forall k,
  (do f <- invert_fig "" k ;; assoc f BASE_CHORDAL_TRANSLATION_DICT) = Some (k mod 3) /\
  (do f <- invert_fig "7" k ;; assoc f BASE_CHORDAL_TRANSLATION_DICT) = Some (k mod 4).
Proof. exact inversion_index_of_invert. Qed.

(* modifiers give the same chord whatever order they are written in *)
Theorem C02_modifier_order : forall c w w',
  fig w = fig w' -> Permutation (repl w) (repl w') -> Permutation (adds w) (adds w') ->
  Permutation (rems w) (rems w') -> parse_ext w = parse_ext w' /\ getitem c w = getitem c w'.
Proof. intros; split; [apply parse_ext_perm | apply getitem_perm]; assumption. Qed.

Theorem C02_normalize_idempotent : forall w, parse_ext (parse_ext w) = parse_ext w.
Proof. exact parse_ext_idempotent. Qed.

Theorem C02_getitem_idempotent : forall c w c', getitem c w = Some c' -> getitem c' (cext c') = Some c'.
Proof. exact getitem_idempotent. Qed.

(* non-vacuity *)
Example C02_ex_valid_modified :
  exists c', getitem (mkC 4 (bare "") (mkT 2 MMin 0) 0) (mkE "65" ["sus4"]%string ["add9"; "M7"]%string []) = Some c'.
Proof. eexists. vm_compute. reflexivity. Qed.
Example C02_ex_invert : invert (mkC 1 (bare "43") (mkT 5 MDor 1) 0) (-7) = Some (mkC 1 (bare "2") (mkT 5 MDor 1) 0).
Proof. vm_compute. reflexivity. Qed.
Example C02_ex_subset : In [(0%nat, "sus2"%string)] (subsets2 tagged) /\
  chord_extension_pitches (mkC 0 (ext_of "6" [(0%nat, "sus2"%string)]) (mkT 0 MMaj 0) 0) = Some [2; 7; 12].
Proof. split; [right; left; reflexivity | vm_compute; reflexivity]. Qed.

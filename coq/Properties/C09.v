(* C09 - relative notes move by exactly k steps from the previous sounded pitch.
   Statements only; proofs in Proofs/RelProofs.v. *)
From ML Require Import Model.Types gen.Tables Model.Pitch Model.Rel Spec.PitchSpec Spec.RelSpec Proofs.PitchProofs Proofs.RelProofs.
Open Scope Z_scope.

(* the pitch classes the code extracts from any non-empty pitch list form a system *)
Theorem C09_scale_mod_is_system : forall sp, sp <> [] -> sys (scale_mod sp).
Proof. exact scale_mod_sys. Qed.

(* sidx enumerates exactly the system pitches, in increasing order (so "k steps" = k ranks) *)
Theorem C09_enumeration : forall Sg, sys Sg ->
  (forall j, sidx Sg j < sidx Sg (j + 1)) /\ (forall p, in_sys Sg p = true <-> exists j, sidx Sg j = p).
Proof. intros Sg H. split; [apply sidx_step; exact H | apply in_sys_iff; exact H]. Qed.

(* rank_ge / rank_le are the nearest system pitch at-or-above / at-or-below *)
Theorem C09_nearest : forall Sg p, sys Sg ->
  sidx Sg (rank_ge Sg p - 1) < p <= sidx Sg (rank_ge Sg p) /\
  sidx Sg (rank_le Sg p) <= p < sidx Sg (rank_le Sg p + 1).
Proof. intros Sg p H. split; [apply rank_ge_spec | apply rank_le_spec]; exact H. Qed.

(* the implementation's windowed search = the closed form, for every system of 1..12 classes,
   every reference pitch in [-96, 96] and every step count whose answer stays in [-108, 108] *)
Theorem C09_window_exact : forall sp v o down p, sp <> [] ->
  let Sg := scale_mod sp in let total := signed_total Sg v o down in
  -96 <= p <= 96 -> -108 <= spec_rel Sg total p <= 108 ->
  get_relative v o down p sp = Some (spec_rel Sg total p).
Proof. exact window_exact. Qed.

(* scale notes in a chord (any mode, per-note mode included) *)
Theorem C09_scale_note : forall c n p, elem_ok c -> pkind n = KS ->
  let Sg := scale_mod (map (chord_deg (real_chord n c)) idx7) in
  let total := signed_total Sg (pval n) (poct n) (match pdir n with Down => true | _ => false end) in
  -96 <= p <= 96 -> -108 <= spec_rel Sg total p <= 108 ->
  to_pitch_rel c n p = Some (spec_rel Sg total p).
Proof.
  intros c n p He K Sg total Hp Ha. unfold to_pitch_rel. rewrite K.
  rewrite (chord_scale_spec _ (real_chord_ok n c He)). cbn [obind].
  apply window_exact; [discriminate|exact Hp|exact Ha].
Qed.

(* the result always belongs to the system *)
Theorem C09_in_system : forall Sg total p, sys Sg -> in_sys Sg (spec_rel Sg total p) = true.
Proof. exact spec_rel_in_sys. Qed.

(* up k then down k (and conversely) from a system pitch returns to it *)
Theorem C09_up_down_inverse : forall Sg k p, sys Sg -> in_sys Sg p = true ->
  spec_down Sg k (spec_up Sg k p) = p /\ spec_up Sg k (spec_down Sg k p) = p.
Proof. exact up_down_inverse. Qed.

(* non-vacuity *)
Example C09_ex_sys : sys (scale_mod [4; 7; 12; 16]) /\ scale_mod [4; 7; 12; 16] = [0; 4; 7].
Proof. split; [apply scale_mod_sys; discriminate | vm_compute; reflexivity]. Qed.
Example C09_ex_window : get_relative 2 1 true 5 [0; 4; 7] = Some (-12) /\ spec_rel [0; 4; 7] (-5) 5 = -12.
Proof. split; vm_compute; reflexivity. Qed.

(* C15 - roman-numeral annotations parse to the right chords at the right times.
   Statements only; proofs in Proofs/RomanProofs.v (the clock, integer ticks, any bar length L > 0, i.e. every
   time signature).  Figures are evaluated against textbook pitch classes by the oracle (DESIGN: narrow Spec). *)
From ML Require Import Model.Types Model.Roman Proofs.RomanProofs.
Open Scope Z_scope.

(* once a chord exists, every further token keeps: the chord in progress lasts to the end of its bar, the earlier
   chords fill exactly the time between the first chord symbol and its start (each chord lasts until the next symbol) *)
Theorem C15_clock_invariant : forall L b0 s t, no_sig t = true -> Inv L b0 s -> Inv L b0 (step s t).
Proof. exact step_inv. Qed.

(* total duration = (bars from the first to the last chord symbol) x bar length - pickup,
   for any bar length and whatever number the first bar carries *)
Theorem C15_total : forall L toks b0 p0, forallb no_sig toks = true -> 0 < L ->
  first_chord 0 0 toks = Some (b0, p0) ->
  let s := run_tokens L toks in
  total s = L * (fst (cs_started s) - b0 + 1) - p0 /\ cs_pickup s = p0.
Proof. exact annotation_total. Qed.

(* a pickup bar numbered 0, three bars of 3/4 (144 ticks), chords on beats: | - - V | I - IV | V7 - - | *)
Example C15_ex : chord_durations 192 [TSig 144; TBar 0; TBeat 96; TChord; TBar 1; TChord; TBeat 96; TChord; TBar 2; TChord]
                 = [48; 96; 48; 144] /\
                 first_chord 0 0 [TSig 144; TBar 0; TBeat 96; TChord; TBar 1; TChord] = Some (0, 96).
Proof. split; vm_compute; reflexivity. Qed.

(* C15 - roman-numeral annotations parse to the right chords at the right times.
   Statements only; proofs in Proofs/RomanProofs.v (the clock, integer ticks, any bar length L > 0, i.e. every
   time signature).  Figures are evaluated against textbook pitch classes by the oracle (DESIGN: narrow Spec). *)
From ML Require Import Model.Types gen.Tables Model.Roman Model.KeyText Proofs.RomanProofs Proofs.RomanFigures Proofs.KeyTextProofs.
From Coq Require Import String Ascii.
Open Scope Z_scope.

(* once a chord exists, every further token keeps: the chord in progress lasts to the end of its bar, the earlier
   chords fill exactly the time between the first chord symbol and its start (each chord lasts until the next symbol) *)
Theorem C15_clock_invariant : forall L b0 s t, no_sig t = true -> Inv L b0 s -> Inv L b0 (step s t).
Proof. exact step_inv. Qed.

(* total duration = (bars from the first to the last chord symbol) x bar length - pickup,
   for any bar length and whatever number the first bar carries *)
Theorem C15_total : forall L toks b0 p0, forallb no_sig toks = true -> 0 < L ->
  first_chord 0 0 toks = Some (b0, p0) ->
  let s := run_tokens L toks in
  total s = L * (fst (cs_started s) - b0 + 1) - p0 /\ cs_pickup s = p0.
Proof. exact annotation_total. Qed.

(* figures: for each of the 104 diatonic figures (triads and sevenths of the major key; triads of the minor key incl. V and vii° of
   the harmonic scale; minor-key sevenths V7, vii°7, iiø7, III7, iv7, VI7, VII7; every inversion) and each of the 12 keys, the chord
   the parser returns (ROMAN_DIATONIC: regenerated from roman_parser.analyze_one_chord on every run) has, by the pitch model of
   C01/C02, exactly the pitch classes of the standard reading (stacked thirds of the key's scale) and its bass *)
Theorem C15_diatonic_figures : forall cs key, In cs figure_cases -> 0 <= key < 12 -> figure_ok cs key = true.
Proof. exact diatonic_figures. Qed.

(* the stated key: a tonic letter followed by any accidentals ('#', 'b', '-'), with or without the colon, reads as that letter's
   pitch class moved by the accidentals, minor exactly when the letter is lower case - the letter b included *)
Theorem C15_key_text : forall l acc pc, letter_pc l = Some pc -> accidentals acc = true ->
  key_of_text (String l acc) = Some (pc + scount "#" acc - scount "b" acc - scount "-" acc, negb (is_upper l)) /\
  key_of_text (String l (acc ++ ":")) = Some (pc + scount "#" acc - scount "b" acc - scount "-" acc, negb (is_upper l)).
Proof. exact key_text_reads. Qed.

(* CurrentTonality.init before the repair 82a2afd read "b:" and "bb:" as major keys *)
Theorem C15_key_text_before_repair_refuted :
  key_of_text_old "b:" = Some (-1, false) /\ key_of_text_old "bb:" = Some (-2, false) /\
  key_of_text "b:" = Some (11, true) /\ key_of_text "bb:" = Some (10, true) /\ key_of_text "Bb:" = Some (10, false).
Proof. exact key_text_old_refuted. Qed.

Example C15_ex_figure : In (true, "VII43"%string, [10; 2; 5; 8], 2%nat) figure_cases /\
  roman_lookup true "VII43" 0 ROMAN_DIATONIC = Some (4, "43"%string, 3, MMaj).      (* in c minor: V43 of E flat major, bass F *)
Proof. split; [vm_compute; tauto|vm_compute; reflexivity]. Qed.

(* a pickup bar numbered 0, three bars of 3/4 (144 ticks), chords on beats: | - - V | I - IV | V7 - - | *)
Example C15_ex : chord_durations 192 [TSig 144; TBar 0; TBeat 96; TChord; TBar 1; TChord; TBeat 96; TChord; TBar 2; TChord]
                 = [48; 96; 48; 144] /\
                 first_chord 0 0 [TSig 144; TBar 0; TBeat 96; TChord; TBar 1; TChord] = Some (0, 96).
Proof. split; vm_compute; reflexivity. Qed.

(* C11 - re-notating a score never changes what is played.  Statements only; proofs in Proofs/RenoteProofs.v
   (to_absolute_note, correct_chord_octave), C10 (decompose_duration), C14 (to_scale_note / to_standard_note
   go through Chord.parse).  The other re-notations are evaluated on the implementation by the oracle. *)
From ML Require Import Model.Types gen.Tables Model.Pitch Model.Rel Model.Ton Model.Render Model.Slice Model.Renote.
From ML Require Import Spec.PitchSpec Spec.RenderSpec Proofs.PitchProofs Proofs.RenderProofs Proofs.RenoteProofs Proofs.RenoteScore Proofs.RenoteStandard Proofs.RenoteTones.
Open Scope Z_scope.

(* to_absolute_note: along the timeline of a part (relative notes have an earlier pitched note since the part was
   last absent; no drum / pattern notes), the renotated part sounds exactly like the original: same pitches,
   onsets, durations (continuations included) and velocities *)
Theorem C11_to_absolute : forall l last ref l' sl,
  (ref = None \/ ref = last) -> renotable (match ref with Some _ => true | None => false end) l ->
  abs_items last l = Some l' -> sounding ref l = Some sl ->
  forall ref2, sounding ref2 l' = Some sl.
Proof. exact abs_items_sounding. Qed.

(* Score.to_absolute_note on a whole score: the dictionary of last pitches threaded through the chords is, seen from one part,
   the single reference of the timeline theorem; so the re-notated score sounds like the original, part by part
   (part names unique inside a chord: they are dictionary keys) *)
Theorem C11_score_to_absolute_view : forall tr s d s' t, score_to_absolute_from s d = Some s' ->
  Forall (fun c => NoDup (map fst (rparts c))) s -> abs_items (zolook tr d) (items s tr t) = Some (items s' tr t).
Proof. exact score_to_absolute_items. Qed.

Theorem C11_score_to_absolute_sounding : forall s s' tr sl, score_to_absolute s = Some s' ->
  Forall (fun c => NoDup (map fst (rparts c))) s -> renotable false (items s tr 0) ->
  sounding_of s tr = Some sl -> sounding_of s' tr = Some sl.
Proof. exact score_to_absolute_sounding. Qed.

(* an absolute note reads back as the pitch it was built from, in any chord *)
Theorem C11_absolute_note_pitch : forall c p last, elem_ok c -> pitch_full c (abs_pnote p) last = Some (Some p).
Proof. exact abs_pnote_pitch. Qed.

(* correct_chord_octave: moving the chord by k octaves and its chord-relative notes by -k leaves every pitch unchanged;
   absolute notes are left alone (after the repair) *)
Theorem C11_octave_compensation : forall c k n p, pdir n = Abs ->
  (pkind n = KS \/ pkind n = KH \/ pkind n = KC \/ pkind n = KB) ->
  to_pitch_abs c n = Some (Some p) -> to_pitch_abs (chord_o c k) (note_o n (- k)) = Some (Some p).
Proof. exact compensated_pitch. Qed.

Theorem C11_octave_absolute : forall c k n, elem_ok c -> pkind n = KA -> to_pitch_abs (chord_o c k) n = to_pitch_abs c n.
Proof. exact absolute_untouched. Qed.

(* the corrected chord has its bass within half an octave of middle C, and the correction terminates *)
Theorem C11_bass_in_range : forall fuel c c', correct_octave fuel c = Some c' ->
  exists bass rest, chord_extension_pitches (rc c') = Some (bass :: rest) /\ -6 < bass <= 6.
Proof. exact corrected_bass. Qed.

Theorem C11_correction_terminates : forall fuel c bass rest,
  chord_extension_pitches (rc c) = Some (bass :: rest) ->
  1 <= Z.of_nat fuel -> bass - 6 <= 12 * (Z.of_nat fuel - 1) -> -6 - bass < 12 * (Z.of_nat fuel - 1) ->
  exists c', correct_octave fuel c = Some c'.
Proof. exact correction_terminates. Qed.

(* to_standard_note on chord tones and bass tones: for EVERY chord (any figure with any replacements / additions / removals, any
   tonality, any octave) and every value and octave of the note, the scale or chromatic note written for it has the same pitch *)
Theorem C11_to_standard_note : forall c n n', (pkind n = KC \/ pkind n = KB) -> pdir n = Abs ->
  note_to_standard c n = Some n' -> to_pitch_abs c n' = to_pitch_abs c n /\ is_sh n' = true.
Proof. exact to_standard_keeps_pitch. Qed.

(* ... and on absolute notes: re-notated by Chord.parse of the pitch, as a plain scale or chromatic note without mode or accidental
   (the mode an absolute note may carry no longer colours the scale note: repaired) *)
Theorem C11_to_standard_absolute : forall c n n', elem_ok c -> pkind n = KA -> pdir n = Abs ->
  note_to_standard c n = Some n' -> to_pitch_abs c n' = to_pitch_abs c n /\ pmode n' = None /\ pacc n' = None.
Proof. exact to_standard_absolute. Qed.

(* to_chord_note / to_extension_note (Note / Melody / Chord / Score level are maps of the note-level form): a note found, octaves
   apart, among the chord's tones is written as the chord tone / bass tone of that index - and sounds the same pitch, for EVERY chord
   (any figure, modifiers, tonality, octaves) and every note; every other note is kept as it is *)
Theorem C11_to_chord_note : forall c n n', note_to_chord_note c n = Some n' -> to_pitch_abs c n' = to_pitch_abs c n.
Proof. exact to_chord_note_keeps_pitch. Qed.

Theorem C11_to_extension_note : forall c n n', note_to_extension_note c n = Some n' -> to_pitch_abs c n' = to_pitch_abs c n.
Proof. exact to_extension_note_keeps_pitch. Qed.

(* non-vacuity: in V6 of C major the third of the chord an octave up (s2.o(1)) is chord tone 1 and bass tone 0, one octave up; a note
   outside the chord (s1) is kept *)
Example C11_ex_tones :
  let c := mkC 4 (bare "6") (mkT 0 MMaj 0) 0 in
  note_to_chord_note c (plain KS 2 1) = Some (plain KC 1 1) /\ note_to_extension_note c (plain KS 2 1) = Some (plain KB 0 1) /\
  note_to_chord_note c (plain KS 1 0) = Some (plain KS 1 0) /\
  to_pitch_abs c (plain KC 1 1) = to_pitch_abs c (plain KS 2 1) /\ to_pitch_abs c (plain KS 2 1) = Some (Some 23).
Proof. vm_compute. repeat split; reflexivity. Qed.

(* to_scale_note at note / melody / chord level (Note.to_scale_note(chord), Melody.to_scale_notes(chord), Chord.to_scale_notes()):
   every non-relative pitched note, whatever its system, per-note mode or accidental, is rewritten as a plain scale or chromatic note
   that sounds the same pitch under the same chord *)
Theorem C11_to_scale_note : forall c n p, elem_ok c -> to_pitch_abs c n = Some (Some p) ->
  exists n', to_scale_note c n = Some n' /\ to_pitch_abs c n' = Some (Some p) /\ pdir n' = Abs /\ pacc n' = None /\ pmode n' = None.
Proof. exact to_scale_note_keeps_pitch. Qed.

Example C11_ex_standard :
  let c := mkC 4 (bare "65") (mkT 0 MMaj 0) 0 in
  note_to_standard c (mkP KC Abs 1 1 None None) = Some (mkP KS Abs 2 1 None None) /\
  to_pitch_abs c (mkP KC Abs 1 1 None None) = Some (Some 23) /\
  note_to_standard c (mkP KB Abs 0 0 None None) = Some (mkP KS Abs 2 0 None None).
Proof. exact to_standard_ex. Qed.

Example C11_ex :
  let c := mkRC (mkC 4 (bare "6") (mkT 9 MMin 0) 2) [("p"%string, [mkTN (plain KS 0 0) 1 66; mkTN (plain KA 3 1) 1 66])] in
  option_map (fun x => (coct (rc x), map (fun n => (pkind (tn n), poct (tn n))) (snd (hd ("", []) (rparts x)))))%string (correct_octave 64 c)
  = Some (-2, [(KS, 4); (KA, 1)]).
Proof. vm_compute. reflexivity. Qed.

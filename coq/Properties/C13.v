(* C13 - harmonic projection takes the target's harmony and keeps the source's music.
   Statements only; proofs in Proofs/ProjectProofs.v (plain projection; integer ticks). *)
From ML Require Import Model.Types gen.Tables Model.Pitch Model.Rel Model.Ton Model.Render Model.Slice Model.Import Model.Renote Model.Project.
From ML Require Import Proofs.RenderProofs Proofs.SliceProofs Proofs.PitchProofs Proofs.ProjectProofs Proofs.ProjectSymbols Proofs.ProjectKeepPitch.
Open Scope Z_scope.
Open Scope list_scope.

(* the chords of the result (degree, extension, tonality, octave) are the target's, in order, for as long as it lasts *)
Theorem C13_chords : forall s g start keep r, project_loop s g start keep = Some r ->
  map rc r = firstn (length r) (map rc g).
Proof. exact project_chords. Qed.

(* every part of the put-on-one-chord window lasts the window *)
Theorem C13_parts_last_the_window : forall s ins, full_score s -> part_dur (part_over s ins) = score_dur s.
Proof. exact part_over_dur. Qed.

(* the result lasts the shorter of the two durations (source with parts lasting their chords, target chords of positive length) *)
Theorem C13_duration : forall s g, full_score s -> Forall (fun c => 0 < rchord_dur c) g ->
  forall r, project_plain s g false = Some r -> score_dur r = Z.min (score_dur g) (score_dur s).
Proof.
  intros s g Hs Hg r H. unfold project_plain in H.
  rewrite (project_duration s g Hs Hg 0 r ltac:(apply Z.le_refl) H).
  pose proof (full_score_nonneg s Hs).
  assert (0 <= score_dur g).
  { clear -Hg. induction g as [|c g IHg]; [unfold score_dur; cbn; apply Z.le_refl|]. rewrite score_dur_cons.
    pose proof (Forall_inv Hg) as P. pose proof (IHg (Forall_inv_tail Hg)). cbn beta in P.
    apply Z.add_nonneg_nonneg; [apply Z.lt_le_incl; exact P|assumption]. }
  rewrite Z.add_0_l, Z.sub_0_r. apply Z.max_r. apply Z.min_glb; assumption.
Qed.

(* the projection keeps every written note symbol: each note of the result is a note of the source with its notation (kind,
   direction, value, octave, mode, accidental) and dynamics - possibly shortened -, or a continuation (of a note cut at a target
   chord boundary), or a rest (a part absent from a source chord).  No hypothesis on the scores. *)
Theorem C13_symbols : forall s g r, project_plain s g false = Some r ->
  Forall (from_source (notes_of_score s)) (notes_of_score r).
Proof. intros s g r. exact (project_symbols s g 0 r). Qed.

(* PITCH KEEPING (partial: the pitches; the onsets and tied durations of the kept notes are evaluated on the implementation by the
   oracle).  keep_pitch writes the source in absolute notes (C11_score_to_absolute_sounding: same sound), projects it plainly and
   re-notates the result in the target's chords (C11_to_scale_note: same pitch under the same chord).  For the middle step: every note
   of the projection of an all-absolute source is a rest, a continuation or one of the source's absolute notes with its dynamics, and
   it sounds that note's pitch under ANY chord it is put on *)
Theorem C13_keep_pitch_partial : forall s g r, project_plain s g false = Some r ->
  Forall abs_or_silent (notes_of_score s) ->
  Forall (fun x => is_rest x = true \/ is_cont x = true \/
                   exists n p, In n (notes_of_score s) /\ tn n = abs_pnote p /\ tamp x = tamp n /\
                               forall c last, elem_ok c -> pitch_full c (tn x) last = Some (Some p))
         (notes_of_score r).
Proof. exact keep_pitch_notes. Qed.

(* non-vacuity: a source of absolute notes (pitches 0, 4, 7) meets the hypothesis, is projected, and its notes read 0 4 | 4 7 under the
   target's chords IV and VI *)
Example C13_ex_keep_pitch :
  let nt p du := mkTN (abs_pnote p) du 66 in
  let c e ps := mkRC (mkC e (bare "") (mkT 0 MMaj 0) 0) ps in
  let s := [c 0 [("piano__0"%string, [nt 0 2; nt 4 2])]; c 4 [("piano__0"%string, [nt 7 4])]] in
  let g := [c 3 [("harp__0"%string, [mkTN (plain KS 0 0) 3 66])]; c 5 [("harp__0"%string, [mkTN (plain KS 0 0) 3 66])]] in
  Forall abs_or_silent (notes_of_score s) /\
  option_map (map (fun x => map (fun p => map (fun n => (pitch_full (rc x) (tn n) 0, tdur n)) (snd p)) (rparts x))) (project_plain s g false)
  = Some [[[(Some (Some 0), 2); (Some (Some 4), 1)]]; [[(Some None, 1); (Some (Some 7), 2)]]].
Proof.
  split; [|vm_compute; reflexivity].
  unfold notes_of_score; cbn [flat_map rparts snd app].
  repeat (apply Forall_cons; [right; right; eexists; reflexivity|]). apply Forall_nil.
Qed.

Example C13_ex :
  let nt k v du := mkTN (mkP k Abs v 0 None None) du 66 in
  let c e ps := mkRC (mkC e (bare "") (mkT 0 MMaj 0) 0) ps in
  option_map (map (fun x => (celem (rc x), map (fun p => (fst p, map (fun n => (pval (tn n), tdur n)) (snd p))) (rparts x))))
    (project_plain [c 0 [("piano__0"%string, [nt KS 0 2; nt KS 1 2])]; c 4 [("piano__0"%string, [nt KS 2 4])]]
                   [c 3 [("harp__0"%string, [nt KS 0 3])]; c 5 [("harp__0"%string, [nt KS 0 3])]] false)
  = Some [(3, [("piano__0"%string, [(0, 2); (1, 1)])]); (5, [("piano__0"%string, [(0, 1); (2, 2)])])].
Proof. vm_compute. reflexivity. Qed.

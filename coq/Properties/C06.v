(* C06 - objects are immutable: no operation changes its operands or earlier results.
   Statements only; proofs in Proofs/HeapProofs.v.  The model (Model/Heap.v) describes the heap effect of a core of the
   public operations, including the ones that SHARE sub-objects with their operands and the in-place editor of the
   voice-leading optimiser; the correspondence check compares object graphs (values and sharing) with the library's.
   Operations outside that core are covered by the snapshot monitor of the harness only. *)
From ML Require Import Model.Types gen.Tables Model.Pitch Model.Code Model.Heap Proofs.HeapProofs.
From Coq Require Import QArith.
Open Scope nat_scope.
Open Scope list_scope.

(* one operation: every cell that existed is still there, unchanged, at its address - also for the editor that copies a score
   and then assigns fields of the copy *)
Theorem C06_step_preserves : forall h o h' a, step_heap h o = Some (h', a) -> preserves h h'.
Proof. exact step_heap_preserves. Qed.

(* any program, results fed back as operands *)
Theorem C06_program_preserves : forall p st st', run st p = Some st' -> preserves (hp st) (hp st').
Proof. exact run_preserves. Qed.

(* reachable heaps are closed (no dangling reference), and every result names an existing object *)
Theorem C06_program_closed : forall p st st', run st p = Some st' -> closed (hp st) -> Forall (fun r => r < length (hp st)) (pool st) ->
  closed (hp st') /\ Forall (fun r => r < length (hp st')) (pool st').
Proof. exact run_closed. Qed.

(* the statement: after ANY continuation q of ANY program p, every object created by p - operand, result, shared note or
   chord - still has the deep value (its fields and, recursively, those of everything it refers to) it had after p *)
Theorem C06_objects_are_immutable : forall p q st1 st2 fuel a,
  run init p = Some st1 -> run st1 q = Some st2 -> a < length (hp st1) -> deep fuel (hp st2) a = deep fuel (hp st1) a.
Proof. exact objects_are_immutable. Qed.

(* non-vacuity: a program that builds a melody sharing its notes, a chord, scores sharing that chord, slices, and finally runs
   the in-place editor on a score; the editor wrote into its copy only *)
Example C06_ex :
  let n v := mkF KS Abs v 0 (1 # 1) None None (66 # 1) [] in
  let p := [NewNote (n 0%Z); NewNote (n 2%Z); NewTon (mkT 0%Z MMaj 0%Z); Concat 0 1; NewChord 4%Z ""%string 2 0%Z;
            ChordCall 4 [("piano__0"%string, 3)]; ScoreOf [5; 5]; ScoreSlice 6 0 2; EditFirstNotes 6 [[(3%Z, 1%Z)]; [(4%Z, 0%Z)]]] in
  match run init p with
  | Some st => length (hp st) = 28 /\ pool st = [0; 1; 2; 3; 4; 9; 10; 16; 27] /\
               get (hp st) 3 = Some (CMel [0; 1]) /\               (* the concatenation shares the two notes *)
               get (hp st) 8 = Some (CMel [6; 7]) /\               (* the chord call copied them *)
               get (hp st) 10 = Some (CScore [9; 9]) /\            (* Score([c, c]) shares the chord, twice *)
               get (hp st) 16 = Some (CScore [15; 9]) /\           (* the slice: a copy, then the last chord itself *)
               (* the editor wrote the first notes of ITS copies (cells 18 and 23); cells 6 and 7 of the edited score are untouched *)
               get (hp st) 18 = Some (CNote (mkF KS Abs 3 1 (1 # 1) None None (66 # 1) [])) /\
               get (hp st) 23 = Some (CNote (mkF KS Abs 4 0 (1 # 1) None None (66 # 1) [])) /\
               get (hp st) 6 = Some (CNote (n 0%Z)) /\ get (hp st) 27 = Some (CScore [21; 26])
  | None => False
  end.
Proof. vm_compute. repeat split; reflexivity. Qed.

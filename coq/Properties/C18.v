(* C18 - transformers change exactly what their mask selects and keep structure.
   Statements only; proofs in Proofs/MaskProofs.v.
   geval env self m = the mask's and/or tree where a guard  L > p  is judged on the ancestor of level L given by env
   (true if env gives none) and unguarded leaves on the element itself. *)
From ML Require Import Model.Types Model.Mask Proofs.MaskProofs.
Open Scope Z_scope.

(* what the dispatch asks at each level, for EVERY mask (any and/or nesting, also across levels):
   a chord is entered (and, by a chord-level transformer, transformed) iff the score- and chord-level guards hold:
   the mask's own verdict on the chord with its score; *)
Theorem C18_dispatch_chord : forall m so co, o_level so = LScore -> o_level co = LChord ->
  call (child m so) co = geval (env_chord so co) co m.
Proof. exact chord_verdict. Qed.

(* a melody is entered iff the score- and melody-level guards hold (chord guards already spent); *)
Theorem C18_dispatch_melody : forall m so po, o_level so = LScore -> o_level po = LMelody ->
  call (child m so) po = geval (env_melody so po) po m.
Proof. exact melody_verdict. Qed.

(* a note receives the action iff the score-, chord- (frozen verdict) and note-level guards hold *)
Theorem C18_dispatch_note : forall m so co no, o_level so = LScore -> o_level co = LChord -> o_level no = LNote ->
  call (child (child m so) co) no = geval (env_note so co no) no m.
Proof. exact note_verdict. Qed.

(* on level-separable masks (a conjunction of guards, each over one level, with any & | ~ inside) the three gates
   together are exactly what the mask says of the note with all its ancestors: the transformer changes exactly
   what the mask selects *)
Theorem C18_dispatch_natural : forall m so co po no, separable m = true ->
  geval (env_chord so co) co m && geval (env_melody so po) po m && geval (env_note so co no) no m
  = geval (env_all so co po no) no m.
Proof. exact separable_natural. Qed.

(* ... and for melody-level transformers the chord gate and the melody gate together are the mask's verdict on the melody
   with its chord and its score *)
Theorem C18_dispatch_natural_melody : forall m so co po, separable m = true ->
  geval (env_chord so co) co m && geval (env_melody so po) po m = geval (env_melody_all so co po) po m.
Proof. exact separable_natural_melody. Qed.

(* ~ negates the verdict of a guard on the elements of its level *)
Theorem C18_invert : forall lv p o, inner p = true -> o_level o = lv ->
  call (invert (MGt lv p)) o = negb (call (MGt lv p) o).
Proof. exact invert_guard. Qed.

(* without a mask every note of every part receives the action *)
Theorem C18_no_mask : forall c cb,
  Forall (fun x => exists l, x = Some l /\ Forall (fun b => b = true) l) (sel_note_chord MTrue c cb).
Proof. exact no_mask_note_chord. Qed.

Example C18_ex :
  let m := MAnd (MGt LChord (MAtom (AHas ["ok"]%string))) (MGt LNote (invert (MAtom (ADurIn [2])))) in
  let s := mkMS [] [mkMC ["ok"]%string MMaj 0 ""%string 0 [mkMP "piano__0"%string [] [mkMN [] 1; mkMN [] 2]];
                    mkMC [] MMaj 4 ""%string 0 [mkMP "piano__0"%string [] [mkMN [] 1]]] in
  separable m = true /\ sel_note_score m s = [Some [Some [true; false]]; None].
Proof. split; vm_compute; reflexivity. Qed.

(* C07 - the MIDI file written for a score contains exactly its sounding notes.
   Statements only; proofs in Proofs/MidiProofs.v.  The bytes are written by mido (trusted, read back by
   an independent SMF reader in the correspondence); the theorems are about the message lists handed to it. *)
From ML Require Import Model.Types gen.Tables Model.Pitch Model.Rel Model.Render Model.Midi Spec.RenderSpec.
From ML Require Import Proofs.RenderProofs Proofs.MidiProofs Proofs.ChannelProofs.
From Coq Require Import Permutation.
Open Scope Z_scope.
Open Scope list_scope.

(* per track, merging continuations and dropping silences gives exactly the sounding notes of C03 *)
Theorem C07_merge_is_sounding : forall s idx track rows,
  track_rows s idx track 0 None = Some rows -> single_track idx rows ->
  exists sl, sounding_of s track = Some sl /\
    map snote_of (audible (map mev_row (rev (fold_left merge_step rows [])))) = sl.
Proof. exact midi_merge_sounding. Qed.

(* the tracks do not interfere: merging all rows and keeping track t = merging the rows of track t *)
Theorem C07_merge_per_track : forall t rows racc,
  filter (fun r => Nat.eqb (r_track r) t) (fold_left merge_step rows racc) =
  fold_left merge_step (filter (fun r => Nat.eqb (r_track r) t) rows) (filter (fun r => Nat.eqb (r_track r) t) racc).
Proof. exact merge_per_track. Qed.

(* exactly one note-on (key = 60 + pitch, velocity, at the onset) and one note-off (at onset + duration) per sounding row *)
Theorem C07_event_pairs : forall rows, Permutation (track_events rows) (map on_of rows ++ map off_of rows).
Proof. exact track_events_pairs. Qed.

(* ordered by time, note-offs before note-ons at equal times *)
Theorem C07_events_ordered : forall rows, me_sorted (track_events rows).
Proof. exact track_events_sorted. Qed.

(* tick positions: the deltas written for a track add up, for EVERY event, to the truncated exact position (int(time * 480)):
   no rounding error accumulates ... *)
Theorem C07_ticks_floor : forall tpq l last,
  abs_times last (with_deltas tpq last l) = map (fun e => tick_of tpq (me_time e)) l.
Proof. exact ticks_floor. Qed.

(* ... so an event whose time is a whole number of ticks is written exactly there, whatever the other events of the score are,
   and any other event less than one tick early *)
Theorem C07_ticks_exact : forall tpq l last j e, 0 < tpq -> nth_error l j = Some e -> on_grid tpq (me_time e) ->
  exists x, nth_error (abs_times last (with_deltas tpq last l)) j = Some x /\ x * tpq = me_time e * TPB.
Proof. exact ticks_exact. Qed.

Theorem C07_ticks_close : forall tpq t, 0 < tpq -> tick_of tpq t * tpq <= t * TPB < (tick_of tpq t + 1) * tpq.
Proof. exact tick_close. Qed.

(* parts are grouped into one track per General MIDI program (drum parts together) *)
Theorem C07_grouping : forall names t1 t2, (t1 < length names)%nat -> (t2 < length names)%nat ->
  (new_track names t1 = new_track names t2 <-> program_of (nth t1 names ""%string) = program_of (nth t2 names ""%string)).
Proof. exact same_track_iff_same_program. Qed.

(* channels: two different programs of a score never share a channel and a pitched program is never on the drum channel 9;
   with at most 15 programs (the implicit piano slot included) every channel is a MIDI channel 0..15 *)
Theorem C07_channels_distinct : forall progs p1 p2, (p1 = 0 \/ In p1 progs) -> (p2 = 0 \/ In p2 progs) -> p1 <> p2 ->
  channel_of progs false p1 <> channel_of progs false p2 /\ channel_of progs false p1 <> 9.
Proof. exact channels_distinct. Qed.

Theorem C07_channels_in_range : forall progs p, (p = 0 \/ In p progs) -> (length (instrument_list progs) <= 15)%nat ->
  0 <= channel_of progs false p <= 15.
Proof. exact channels_in_range. Qed.

(* the generated instrument table: the program numbers of the instruments used as examples in the docs *)
Example C07_ex_programs : map program_of ["piano"; "violin"; "flute"; "cello"; "trumpet"; "drums_0"; "nonexistent"]%string
                          = [0; 40; 73; 42; 56; -1; 0].
Proof. vm_compute. reflexivity. Qed.
Example C07_ex_channels : map (fun p => channel_of [0; 40; 73; 0] false p) [0; 40; 73] = [0; 1; 2] /\ channel_of [0; 40] true 0 = 9.
Proof. split; vm_compute; reflexivity. Qed.

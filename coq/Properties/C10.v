(* C10 - durations are exact and add up.  Statements only; proofs in Proofs/DurProofs.v.
   `fits x` = the reduced denominator of x is <= 1000 (the library's documented resolution). *)
From ML Require Import Model.Types gen.Tables Model.Dur Spec.DurSpec Proofs.DurProofs.
From Coq Require Import QArith.
Open Scope Q_scope.

(* the generated table = w 4, h 2, q 1, e 1/2, s 1/4, t 1/8; dotted x3/2; n-tuplets x2/n; n = 0
   (31 entries, both directions), names and values pairwise distinct, DURATION_TO_STR its inverse *)
Theorem C10_table :
  table_agrees STR_TO_DURATION spec_table = true /\ table_agrees spec_table STR_TO_DURATION = true /\
  distinct_keys STR_TO_DURATION = true /\ distinct_vals STR_TO_DURATION = true /\ inverse_ok = true /\
  length STR_TO_DURATION = 31%nat.
Proof. exact table_ok. Qed.

Theorem C10_limit_identity : forall x, fits x = true -> limit_den x == x.
Proof. exact limit_den_fits. Qed.

(* a note stores its duration, augment multiplies, set_duration yields exactly d *)
Theorem C10_note : forall d k v,
  (fits d = true -> note_new d == d) /\ (fits (d * k) = true -> note_augment d k == d * k) /\
  (fits v = true -> note_set_duration v == v).
Proof. intros d k v. repeat split; [apply note_new_exact|apply note_augment_exact|apply note_set_duration_exact]. Qed.

(* a melody lasts the sum of its notes; onsets are the partial sums *)
Theorem C10_onsets : forall m i, (i < length m)%nat -> nth i (onset_times m) 0 == qsum (firstn i m).
Proof. intros m i H. unfold onset_times. rewrite (onsets_from_nth 0 m i H). ring. Qed.

(* concatenation adds, repetition multiplies (melodies; scores are sums of chord durations in the same way) *)
Theorem C10_concat : forall a b, mel_dur (a ++ b) == mel_dur a + mel_dur b.
Proof. exact qsum_app. Qed.

Theorem C10_repeat : forall m k, mel_dur (repeat_list m k) == inject_Z (Z.of_nat k) * mel_dur m.
Proof. exact qsum_repeat. Qed.

Theorem C10_score_concat : forall s1 s2, score_dur (s1 ++ s2) == score_dur s1 + score_dur s2.
Proof. intros. unfold score_dur. rewrite map_app. apply qsum_app. Qed.

(* score * k lasts k times the score (k = 0: the empty score, lasting 0) *)
Theorem C10_score_repeat : forall s k, score_dur (repeat_list s k) == inject_Z (Z.of_nat k) * score_dur s.
Proof. exact score_repeat_dur. Qed.

(* a chord lasts as long as its longest part *)
Theorem C10_chord_longest_part : forall parts, parts <> [] ->
  (forall p, In p parts -> mel_dur p <= chord_dur parts) /\ exists p, In p parts /\ chord_dur parts = mel_dur p.
Proof. exact chord_dur_longest. Qed.

(* augment(k) multiplies every note by k, hence the total *)
Theorem C10_augment : forall m k, forallb (fun d => fits (d * k)) m = true ->
  Forall2 Qeq (mel_augment m k) (map (fun d => d * k) m) /\ mel_dur (mel_augment m k) == mel_dur m * k.
Proof. intros m k H. split; [apply mel_augment_exact|apply mel_augment_total]; exact H. Qed.

(* set_duration(d) on a melody of non-zero duration yields exactly d *)
Theorem C10_set_duration : forall m d, ~ mel_dur m == 0 ->
  forallb (fun x => fits (x * (d / mel_dur m))) m = true ->
  exists m', mel_set_duration m d = Some m' /\ mel_dur m' == d.
Proof. exact mel_set_duration_total. Qed.

(* set_duration(0) never fails, also on a melody of length 0 (repair of the division by the melody's length) *)
Theorem C10_set_duration_zero : forall m, exists m', mel_set_duration m 0 = Some m' /\ mel_dur m' == 0.
Proof. exact mel_set_duration_zero. Qed.

(* decomposing durations keeps the total of a note and of a melody (hence every later onset) *)
Theorem C10_decompose : forall f d, dec_ok f d = true -> qsum (decompose f d) == d.
Proof. exact decompose_total. Qed.

Theorem C10_decompose_melody : forall f m, forallb (dec_ok f) m = true ->
  qsum (flat_map (decompose f) m) == qsum m.
Proof. exact decompose_melody_total. Qed.

(* non-vacuity: 11/8 decomposes as 1 + 1/4 + 1/8 with every step exact *)
Example C10_ex_decompose : dec_ok 50 (11 # 8) = true /\ decompose 50 (11 # 8) = [1; 1 # 4; 1 # 8].
Proof. split; vm_compute; reflexivity. Qed.
Example C10_ex_fits : fits ((7 # 3) * (5 # 11)) = true /\ fits (1 # 1001) = false.
Proof. split; vm_compute; reflexivity. Qed.

(* C19 - voice leading, parsimonious chord voice leading and counterpoint only re-voice.
   Statements only; proofs in Proofs/VoiceProofs.v and Proofs/ParsProofs.v.
   The optimiser's random search is NOT modelled: its result (the delta matrix) is universally quantified here, and the
   correspondence check reads it from the implementation on every run and checks the mask (fixed_zero). *)
From ML Require Import Model.Types gen.Tables Model.Pitch Model.Ext Model.Ton Model.Rel Model.Render Model.Slice Model.Renote Model.Voice.
From ML Require Import Spec.PitchSpec Proofs.PitchProofs Proofs.ExtProofs Proofs.VoiceProofs Proofs.ParsProofs.
Open Scope Z_scope.
Open Scope list_scope.

(* ---- VoiceLeading.get_score: whatever deltas the search returns, only pitch choices change ---- *)
(* chords, part names, every duration, dynamic, note system, direction, mode and accidental are kept; all notes after the first
   of a part are untouched *)
Theorem C19_vl_only_revoices : forall s dss s', vl_apply s dss = Some s' -> Forall2 chord_revoiced s s'.
Proof. exact vl_apply_shape. Qed.

(* the corrected note lies inside its note system and sounds like the original moved by d steps of that system:
   value modulo system size with octave carry is pitch-neutral, for 3-, 4- and n-tone chords alike *)
Theorem C19_vl_fold_in_system : forall nb n d, 0 < nb -> 0 <= pval (fold_note nb n d) < nb.
Proof. exact fold_note_range. Qed.

Theorem C19_vl_fold_pitch : forall c n d nb, cand_len c (pkind n) = Some nb -> nb <> 0 -> (pkind n = KS -> pacc n = None) ->
  to_pitch_abs c (fold_note nb n d) = to_pitch_abs c (moved n d).
Proof. exact fold_note_pitch. Qed.

(* the pitch the optimiser computes for a candidate (get_pitch_solution) is the pitch the renderer gives the written note *)
Theorem C19_vl_optimiser_pitch_is_rendered_pitch : forall c n d p, elem_ok c -> pmode n = None -> pacc n = None ->
  pitch_solution c n d = Some p -> to_pitch_abs c (moved n d) = Some (Some p).
Proof. exact pitch_solution_sound. Qed.

(* chord tones remain chord tones *)
Theorem C19_vl_chord_tone_stays : forall c n d nb p, pkind n = KC -> cand_len c KC = Some nb -> nb <> 0 ->
  to_pitch_abs c (fold_note nb n d) = Some (Some p) -> exists cp t q, chord_pitches c = Some cp /\ In t cp /\ p = t + 12 * q.
Proof. exact chord_tone_stays. Qed.

Theorem C19_vl_voicing_tone_stays : forall c n d nb p, pkind n = KB -> cand_len c KB = Some nb -> nb <> 0 ->
  to_pitch_abs c (fold_note nb n d) = Some (Some p) -> exists cp t q, chord_extension_pitches c = Some cp /\ In t cp /\ p = t + 12 * q.
Proof. exact voicing_tone_stays. Qed.

(* a voice whose delta is 0 (every fixed voice: checked on each run by fixed_zero) keeps pitch, duration and dynamic *)
Theorem C19_vl_fixed_voice_keeps_pitch : forall c n n', correct_first c n 0 = Some n' -> (pkind (tn n) = KS -> pacc (tn n) = None) ->
  to_pitch_abs c (tn n') = to_pitch_abs c (tn n) /\ tdur n' = tdur n /\ tamp n' = tamp n.
Proof. exact correct_first_fixed. Qed.

(* ---- find_optimal_octaves ---- *)
Theorem C19_vl_bass_near_middle_c : forall fuel keep c c', vl_normalise fuel keep c = Some c' ->
  exists b, bass_pitch (rc c') = Some b /\ -6 < b <= 6.
Proof. exact vl_normalise_bass. Qed.

Theorem C19_vl_normalise_only_octave : forall fuel keep c c', vl_normalise fuel keep c = Some c' -> exists k, rc c' = chord_o (rc c) k.
Proof. exact vl_normalise_chord. Qed.

Theorem C19_vl_normalise_terminates : forall keep, NoDup keep -> forall fuel c b,
  (forall nm, In nm keep -> plook nm (rparts c) <> None) -> bass_pitch (rc c) = Some b ->
  1 <= Z.of_nat fuel -> b - 6 <= 12 * (Z.of_nat fuel - 1) -> -6 - b < 12 * (Z.of_nat fuel - 1) ->
  exists c', vl_normalise fuel keep c = Some c'.
Proof. exact vl_normalise_terminates. Qed.

(* a fixed voice whose octave must not change is moved back by exactly the chord's octave shift ... *)
Theorem C19_vl_fixed_voice_compensated : forall fuel keep nm, NoDup keep -> In nm keep -> forall c c' m,
  vl_normalise fuel keep c = Some c' -> plook nm (rparts c) = Some m ->
  exists k, rc c' = chord_o (rc c) k /\ plook nm (rparts c') = Some (compensate m (- k)).
Proof. exact vl_normalise_fixed. Qed.

(* ... which keeps the pitch of each of its notes (absolute notes are left alone) *)
Theorem C19_vl_compensation_keeps_pitch : forall c k n, elem_ok c -> pdir (tn n) = Abs -> forall r, to_pitch_abs c (tn n) = Some r ->
  to_pitch_abs (chord_o c k) (tn (if kind_eqb (pkind (tn n)) KA then n else mkTN (note_o (tn n) (- k)) (tdur n) (tamp n))) = Some r.
Proof. exact compensated_note_pitch. Qed.

(* ---- parsimonious chord voice leading (triads and sevenths without modifiers, any degree, mode, tonic and octaves) ---- *)
(* the result is the same degree of the same tonality (octave reset), an inversion of the same family, with the same
   chord tones whole octaves apart *)
Theorem C19_pars_same_chord : forall root e four i td md to_ co d, 0 <= e <= 6 -> 0 <= i < fam_size four ->
  exists r k, parsimonious root (bchord e four i (mkT td md to_) co) d = Some r /\
    celem r = e /\ tdeg (cton r) = td /\ tmode (cton r) = md /\
    (exists i', cext r = bare (fig_of four i') /\ 0 <= i' < fam_size four) /\
    chord_pitches r = option_map (map (fun p => p + 12 * k)) (chord_pitches (bchord e four i (mkT td md to_) co)).
Proof. exact parsimonious_tones. Qed.

(* the bass moves by at most a minor third without direction, by 0..5 semitones in the requested direction otherwise:
   in every case at most a fifth.  root is ANY integer (any previous chord) *)
Theorem C19_pars_bass_move : forall root e four i td md to_ co d, 0 <= e <= 6 -> 0 <= i < fam_size four ->
  exists r b, parsimonious root (bchord e four i (mkT td md to_) co) d = Some r /\ bass_pitch r = Some b /\
    match d with
    | DNone => -3 <= b - root <= 3
    | DUp => 0 <= b - root <= 5
    | DDown => -5 <= b - root <= 0
    end.
Proof.
  intros root e four i td md to_ co d He Hi.
  destruct (parsimonious_bass root e four i td md to_ co d He Hi) as (r & b & P & B & M).
  exists r, b. split; [exact P|]. split; [exact B|]. destruct d; cbn [mv_ok] in M; apply andb_prop in M; destruct M as [M1 M2];
  apply Z.leb_le in M1; apply Z.leb_le in M2; split; assumption.
Qed.

(* the score: first chord and all parts kept, one result per chord; along a chained progression every bass stays within the
   bound of the previous RESULT *)
Theorem C19_pars_score_keeps : forall ff dirs c r out, pars_score ff dirs (c :: r) = Some out ->
  exists r', out = c :: r' /\ map rparts r' = map rparts r /\ length r' = length r.
Proof. exact pars_score_keeps. Qed.

Theorem C19_pars_chain : forall cs prev dirs out b0, Forall (fun c => is_bare_inv (rc c)) cs ->
  bass_pitch prev = Some b0 -> pars_from false prev dirs cs = Some out ->
  exists basses, map (fun c => bass_pitch (rc c)) out = map Some basses /\
    (fix ok (b : Z) (bs : list Z) (ds : list direction) : Prop :=
       match bs, ds with
       | x :: br, d :: dr => mv_ok (x - b) d = true /\ ok x br dr
       | _, _ => True
       end) b0 basses dirs.
Proof. exact pars_from_chain. Qed.

(* ---- counterpoint ---- *)
(* convert_array_to_melody keeps every duration and dynamic; rests and continuations are copied; notes become scale notes *)
Theorem C19_cp_rhythm : forall v hs v', cp_convert v hs = Some v' -> map tdur v' = map tdur v /\ map tamp v' = map tamp v.
Proof. exact cp_convert_rhythm. Qed.

Theorem C19_cp_notes : forall v hs v', cp_convert v hs = Some v' ->
  Forall2 (fun n n' => (is_pitched_note n = false -> n' = n) /\
                       (is_pitched_note n = true -> pkind (tn n') = KS /\ pdir (tn n') = Abs /\ 0 <= pval (tn n') < 7)) v v'.
Proof. exact cp_convert_notes. Qed.

(* a run accepted by the checker (every chosen delta is a best one of the model's scorer) moves each note by <= 4 steps *)
Theorem C19_cp_small_moves : forall arr cols chosen li ln, cp_run arr cols chosen li ln = true ->
  Forall2 (fun a h => match a, h with Some n, Some x => -4 <= x - n <= 4 | None, None => True | _, _ => False end) arr chosen.
Proof. exact cp_run_small. Qed.

(* ---- non-vacuity ---- *)
Example C19_ex_fold : (* a c-note of a triad pushed 4 steps up: c2 -> c0 two octaves... value 6 = 2*3 + 0 *)
  fold_note 3 (plain KC 2 0) 4 = plain KC 0 2 /\
  to_pitch_abs (mkC 0 (bare "") (mkT 0 MMaj 0) 0) (plain KC 0 2) = Some (Some 24).
Proof. split; vm_compute; reflexivity. Qed.

Example C19_ex_normalise :
  option_map (fun c => (coct (rc c), rparts c))
    (vl_normalise 64 ["cello__0"%string]
       (mkRC (mkC 4 (bare "") (mkT 0 MMaj 0) 1)
             [("cello__0"%string, [mkTN (plain KS 0 0) 1 66; mkTN (plain KA 0 5) 1 66]); ("violin__0"%string, [mkTN (plain KS 2 0) 2 66])]))
  = Some (-1, [("cello__0"%string, [mkTN (plain KS 0 2) 1 66; mkTN (plain KA 0 5) 1 66]); ("violin__0"%string, [mkTN (plain KS 2 0) 2 66])]).
Proof. vm_compute. reflexivity. Qed.

Example C19_ex_pars : (* I -> V in C major: V6 an octave down, bass B below middle C *)
  parsimonious 0 (mkC 4 (bare "") (mkT 0 MMaj 0) 0) DNone = Some (mkC 4 (bare "6") (mkT 0 MMaj 0) (-1)) /\
  bass_pitch (mkC 4 (bare "6") (mkT 0 MMaj 0) (-1)) = Some (-1) /\
  parsimonious 0 (mkC 4 (bare "") (mkT 0 MMaj 0) 0) DUp = Some (mkC 4 (bare "64") (mkT 0 MMaj 0) (-1)).
Proof. repeat split; vm_compute; reflexivity. Qed.

Example C19_ex_cp :
  cp_convert [mkTN (plain KS 0 0) 2 66; mkTN (plain KR 0 0) 1 66; mkTN (plain KS 6 0) 1 40] [Some 2; None; Some 8]
  = Some [mkTN (plain KS 2 0) 2 66; mkTN (plain KR 0 0) 1 66; mkTN (plain KS 1 1) 1 40] /\
  (* against a subject a second above: stay = dissonance; one step up (unison) or down (third) are the two best moves *)
  cp_best [Some 1] [None] None 0 1 = true /\ cp_best [Some 1] [None] None 0 (-1) = true /\ cp_best [Some 1] [None] None 0 0 = false.
Proof. repeat split; vm_compute; reflexivity. Qed.

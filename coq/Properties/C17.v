(* C17 - metric grids place notes exactly on their pulses; Euclidean rhythms are even.
   Statements only; proofs in Proofs/MetricProofs.v.  Tatum units. *)
From ML Require Import Model.Types Model.Metric Proofs.MetricProofs Proofs.MetricNoExpand Proofs.MetricFromMelody.
Open Scope Z_scope.

(* applying a grid to a melody of m >= 1 notes: the result lasts exactly the number of tatums of the grid *)
Theorem C17_apply_duration : forall a m es, apply_metric a m = Some es -> total_tatums es = Z.of_nat (length a).
Proof. exact apply_total. Qed.

(* the onsets of the entries that carry a note of the melody are exactly the pulse positions *)
Theorem C17_apply_onsets : forall a m es, apply_metric a m = Some es -> entry_onsets 0 es = positions_from 0 a.
Proof. exact apply_onsets. Qed.

(* the melody's notes are taken in order, cyclically: the j-th produced entry, when it carries a note, carries
   note j mod m (so the first pulse takes the first note exactly when the grid starts on a pulse: otherwise entry 0
   is the leading rest) *)
Theorem C17_apply_order : forall a m es j o k, apply_metric a m = Some es ->
  nth_error es j = Some (Some o, k) -> o = Z.of_nat j mod m.
Proof. exact apply_sources. Qed.

(* expand=False (the melody is not repeated; missing notes are rests): on a binary grid the result still lasts the grid ... *)
Theorem C17_apply_no_expand_duration : forall a m es, binary a -> apply_metric_ne a m = Some es -> total_tatums es = Z.of_nat (length a).
Proof. exact apply_ne_total. Qed.

(* ... and an entry that carries a note carries the melody's note j mod m' (m' = the length after padding), a note of the melody
   itself: never a padding rest, never a note the melody does not have *)
Theorem C17_apply_no_expand_order : forall a m es j o k, apply_metric_ne a m = Some es ->
  nth_error es j = Some (Some o, k) -> o = Z.of_nat j mod Z.max m (zsum a) /\ o < m.
Proof. exact apply_ne_sources. Qed.

(* extracting the metric of the produced melody returns the grid: reading each produced entry back as FromMelody does (a 1 where it
   carries a note, then zeros for the tatums it holds) gives the binary grid itself, whatever the melody *)
Theorem C17_from_melody_roundtrip : forall a m es, binary a -> apply_metric a m = Some es -> from_melody (map flag_of es) = a.
Proof. exact from_melody_of_applied. Qed.

Example C17_ex_from_melody :
  binary [0; 1; 0; 0; 1; 1; 0] /\
  option_map (fun es => from_melody (map flag_of es)) (apply_metric [0; 1; 0; 0; 1; 1; 0] 2) = Some [0; 1; 0; 0; 1; 1; 0].
Proof. split; [unfold binary; repeat (apply Forall_cons; [(left; reflexivity) || (right; reflexivity)|]); apply Forall_nil|vm_compute; reflexivity]. Qed.

(* a Euclidean rhythm has exactly the requested number of steps and pulses, starts on the downbeat, is binary:
   for ALL 1 <= pulses <= steps *)
Theorem C17_euclid : forall steps pulses, 1 <= pulses <= steps ->
  exists p, bjorklund steps pulses = Some p /\ Z.of_nat (length p) = steps /\ sumz p = pulses /\
            hd 0 p = 1 /\ Forall (fun x => x = 0 \/ x = 1) p.
Proof. exact euclid_ok. Qed.

(* ... and spreads the pulses maximally evenly (Clough-Douthett).  BOUNDED: steps <= 64, finite sweep in the kernel *)
Theorem C17_euclid_even_upto_64 : forall steps pulses, 1 <= pulses <= steps -> steps <= 64 ->
  exists p, bjorklund steps pulses = Some p /\ max_even p = true.
Proof. exact euclid_even_bounded. Qed.

(* complement, reversal and circular shift are invertible (all arrays, all shifts in Z) *)
Theorem C17_algebra : forall a n,
  complementary (complementary a) = a /\ reversed (reversed a) = a /\ circular_shift (circular_shift a n) (- n) = a.
Proof. intros a n. repeat split; [apply complementary_involutive|apply reversed_involutive|apply circular_shift_back]. Qed.

Example C17_ex : bjorklund 8 3 = Some [1; 0; 0; 1; 0; 0; 1; 0] /\
  apply_metric [0; 1; 0; 0; 1; 1] 2 = Some [(None, 1); (Some 1, 3); (Some 0, 1); (Some 1, 1)].
Proof. split; vm_compute; reflexivity. Qed.

(* C04 - transposition is exact: modulation, octaves and their composition laws.
   Statements only; proofs in Proofs/TonProofs.v (the rendering-level statement is in C03's files). *)
From ML Require Import Model.Types gen.Tables Model.Pitch Model.Rel Model.Ton Model.Render Model.Slice Model.Octave Spec.PitchSpec Spec.RenderSpec.
From ML Require Import Proofs.PitchProofs Proofs.TonProofs Proofs.RenderProofs Proofs.RenderTonProofs Proofs.RenderOctave.
Open Scope Z_scope.

(* modulating by a tonality that keeps the mode moves every chord-relative pitch
   (scale, chromatic, chord-tone, bass-tone; accidentals, per-note modes, any modifier set)
   by exactly degree + 12 * octave; the chord octave is folded in and reset *)
Theorem C04_modulate_pitch : forall c t n p, tmode t = tmode (cton c) ->
  (pkind n = KS \/ pkind n = KH \/ pkind n = KC \/ pkind n = KB) ->
  to_pitch_abs c n = Some (Some p) ->
  to_pitch_abs (chord_mod c t) n = Some (Some (p + (tdeg t + 12 * toct t))).
Proof. exact modulate_pitch. Qed.

Theorem C04_modulate_absolute : forall c t n, elem_ok c -> pkind n = KA ->
  to_pitch_abs (chord_mod c t) n = to_pitch_abs c n.
Proof. exact modulate_absolute. Qed.

Theorem C04_modulate_drum : forall c t n, pkind n = KD ->
  to_pitch_abs (chord_mod c t) n = to_pitch_abs c n.
Proof. exact modulate_drum. Qed.

(* octaves: chord octave, note octave *)
Theorem C04_chord_octave : forall c k n p,
  (pkind n = KS \/ pkind n = KH \/ pkind n = KC \/ pkind n = KB) ->
  to_pitch_abs c n = Some (Some p) -> to_pitch_abs (chord_o c k) n = Some (Some (p + 12 * k)).
Proof. exact chord_o_pitch. Qed.

Theorem C04_note_octave : forall c k n p, pdir n = Abs ->
  (pkind n = KS \/ pkind n = KH \/ pkind n = KC \/ pkind n = KB \/ pkind n = KA) ->
  to_pitch_abs c n = Some (Some p) -> to_pitch_abs c (note_o n k) = Some (Some (p + 12 * k)).
Proof. exact note_o_pitch. Qed.

Theorem C04_note_octave_leaves_others : forall k n,
  (pdir n <> Abs \/ pkind n = KD \/ pkind n = KR \/ pkind n = KL) -> note_o n k = n.
Proof. exact note_o_other. Qed.

(* (c % a) % b = c % (a + b), field-wise, for every chord and all tonalities *)
Theorem C04_compose : forall c a b, chord_mod (chord_mod c a) b = chord_mod c (ton_add a b).
Proof. exact chord_mod_compose. Qed.

(* tonality addition: associative, normalised, neutral elements, undone by subtraction (all degrees/octaves in Z) *)
Theorem C04_add_assoc : forall a b c, ton_add (ton_add a b) c = ton_add a (ton_add b c).
Proof. exact ton_add_assoc. Qed.

Theorem C04_add_normalised : forall a b, 0 <= tdeg (ton_add a b) < 12.
Proof. exact ton_add_normalised. Qed.

Theorem C04_add_neutral : forall md t,
  ton_add (mkT 0 md 0) t = ton_norm t /\ ton_add t (mkT 0 (tmode t) 0) = ton_norm t /\
  (normalised t -> ton_norm t = t).
Proof. intros md t. split; [apply ton_add_zero_l | split; [apply ton_add_zero_r | apply ton_norm_id]]. Qed.

Theorem C04_sub_undoes : forall a b,
  ton_add b (ton_sub a b) = ton_norm a /\ ton_sub (ton_add a b) a = ton_norm b.
Proof. intros a b. split; [apply ton_add_sub | apply ton_sub_add]. Qed.

Theorem C04_eq_is_kernel_of_norm : forall a b, ton_eqb a b = true <-> ton_norm a = ton_norm b.
Proof. exact ton_eqb_spec. Qed.

(* rendering level: modulating a whole score by a tonality t (same mode as every chord) moves the sounding notes
   of a part made of chord-relative notes (s, h, c, b; rests, continuations) by exactly tdeg t + 12 * toct t and
   keeps every onset, duration and velocity; parts made of absolute and drum notes are unchanged.
   (Parts containing relative notes are tied by correspondence and oracle only.) *)
Theorem C04_modulate_render : forall s track t sl,
  forallb (fun c => mode_eqb (tmode t) (tmode (cton (rc c)))) s = true ->
  forallb (item_ok chord_relative) (items s track 0) = true ->
  sounding_of s track = Some sl ->
  sounding_of (rscore_map (fun c => chord_mod c t) s) track = Some (map (shift_snote (tdeg t + 12 * toct t)) sl).
Proof. exact modulate_render. Qed.

Theorem C04_modulate_render_absolute : forall s track t,
  forallb (fun i => match i with INote c _ _ => (0 <=? celem c) && (celem c <=? 6) | IGap => true end) (items s track 0) = true ->
  forallb (item_ok chord_free) (items s track 0) = true ->
  sounding_of (rscore_map (fun c => chord_mod c t) s) track = sounding_of s track.
Proof. exact modulate_render_absolute. Qed.

(* rendering level, octaves: Chord.o(k) on every chord moves the sounding notes of a part made of chord-relative notes by exactly 12k;
   Score.o(k) - Note.o(k) on every note of every part - moves the sounding notes of a part made of non-relative pitched notes of ANY
   system (absolute notes included) by exactly 12k; onsets, durations (continuations included) and velocities are kept.
   (Parts containing relative notes are tied by correspondence and oracle only.) *)
Theorem C04_chord_octave_render : forall s track k sl,
  forallb (item_ok chord_relative) (items s track 0) = true ->
  sounding_of s track = Some sl ->
  sounding_of (rscore_map (fun c => chord_o c k) s) track = Some (map (shift_snote (12 * k)) sl).
Proof. exact chord_octave_render. Qed.

Theorem C04_score_octave_render : forall s track k sl,
  forallb (item_ok plain_pitched) (items s track 0) = true ->
  sounding_of s track = Some sl ->
  sounding_of (score_o s k) track = Some (map (shift_snote (12 * k)) sl).
Proof. exact score_octave_render. Qed.

(* non-vacuity: s0 + a continuation + the absolute note a4 (E) under V of C major, raised by two octaves *)
Example C04_ex_score_octave :
  let nt k v du := mkTN (mkP k Abs v 0 None None) du 66 in
  let s := [mkRC (mkC 4 (bare "") (mkT 0 MMaj 0) 0) [("p"%string, [nt KS 0 2; nt KL 0 1; nt KA 4 3])]] in
  forallb (item_ok plain_pitched) (items s "p" 0) = true /\
  sounding_of s "p" = Some [mkSN 7 0 3 66; mkSN 4 3 3 66] /\
  sounding_of (score_o s 2) "p" = Some [mkSN 31 0 3 66; mkSN 28 3 3 66].
Proof. vm_compute. repeat split; reflexivity. Qed.

Example C04_ex : to_pitch_abs (chord_mod (mkC 4 (bare "65") (mkT 9 MMin (-1)) 2) (mkT 7 MMin 1)) (plain KB 1 0)
               = Some (Some (35 + (7 + 12 * 1))) /\
               to_pitch_abs (mkC 4 (bare "65") (mkT 9 MMin (-1)) 2) (plain KB 1 0) = Some (Some 35).
Proof. split; vm_compute; reflexivity. Qed.

(* C03 - rendering a score yields exactly its sounding notes at the right times.
   Statements only; proofs in Proofs/RenderProofs.v.  Time is in integer ticks of arbitrary size
   (every rational score is such a score after multiplying by the LCM of its denominators). *)
From ML Require Import Model.Types gen.Tables Model.Pitch Model.Rel Model.Render Spec.RenderSpec Proofs.RenderProofs Proofs.EventsProofs Proofs.EventsGlobal Proofs.EventsSorted.
From Coq Require Import QArith Permutation.
Open Scope Z_scope.
Open Scope list_scope.

(* the two nested folds of create_melody_for_track / melody_to_pitches (clock, reference, per-chord part lookup)
   are a single pass over the part's timeline, whose onsets have the closed forms below *)
Theorem C03_rows_are_timeline : forall s idx track t last,
  track_rows s idx track t last = rows_of_items idx (items s track t) last.
Proof. exact track_rows_items. Qed.

(* inside a chord a note starts at the chord start plus the durations before it *)
Theorem C03_onsets_in_chord : forall m1 m2 c t,
  part_items (m1 ++ m2) c t = part_items m1 c t ++ part_items m2 c (t + part_dur m1).
Proof. exact part_items_app. Qed.

(* chords follow one another, each lasting as long as its longest part *)
Theorem C03_onsets_of_chords : forall s1 s2 track t,
  items (s1 ++ s2) track t = items s1 track t ++ items s2 track (t + score_dur_z s1).
Proof. exact items_app. Qed.

(* MAIN: for every score (any number of chords, unequal parts, absent parts, rests/continuations anywhere,
   relative notes, drums), merging the rendered rows of a part - a continuation row lengthens the previous
   event of its part, silent events are dropped - gives exactly the sounding notes of the Spec:
   pitch, onset, duration extended by directly following continuations, velocity *)
Theorem C03_track_sounding : forall s idx track rows,
  track_rows s idx track 0 None = Some rows ->
  exists sl, sounding_of s track = Some sl /\ map snote_of (audible (merge_from None rows)) = sl.
Proof. exact track_sounding. Qed.

(* rests, continuations with nothing to continue and absent parts produce no sound *)
Theorem C03_silence : forall l ref, forallb silent_item l = true -> sounding ref l = Some [].
Proof. exact sounding_silent. Qed.

(* to_events: times are seconds = ticks x 60 / (tempo x ticks per quarter).  For the rows of one part (any tempo, any tick
   resolution), the audible events that matrix_to_events accumulates for its track are exactly the sounding notes of the
   statement, every onset and every duration - continuations included - scaled by that factor (Q: equalities of times are Qeq) *)
Theorem C03_events_in_seconds : forall tpq tempo s idx track rows,
  track_rows s idx track 0 None = Some rows -> Forall (fun r => r_track r = idx) rows ->
  exists sl, sounding_of s track = Some sl /\
    Forall2 (ev_equiv)
      (filter (fun e => negb (e_sil e)) (match nlook idx (fold_left (ev_step true tpq tempo) rows []) with Some x => x | None => [] end))
      (map (ev_of_snote tpq tempo idx) sl).
Proof. exact events_are_sounding_in_seconds. Qed.

(* to_events as a whole (all parts together): the global stable sort by onset leaves each part's rows in their order, the per-track
   dictionaries do not interfere, and the final sort only orders the output - so, for every part, the events of its track in the
   OUTPUT of matrix_to_events are, up to that output order, its sounding notes in seconds.  Hypotheses: `all` contains the rows of
   part idx as they are (get_notes concatenates the parts) and they are in time order (C03_rows_are_timeline, durations >= 0). *)
Theorem C03_to_events_whole : forall tpq tempo s idx track rows all,
  track_rows s idx track 0 None = Some rows -> Forall (fun r => r_track r = idx) rows ->
  filter (fun r => Nat.eqb (r_track r) idx) all = rows -> sortedk r_off rows ->
  exists sl l, sounding_of s track = Some sl /\
    Permutation (filter (fun e => Nat.eqb (e_track e) idx) (matrix_to_events true tpq tempo all)) l /\
    Forall2 (ev_equiv) l (map (ev_of_snote tpq tempo idx) sl).
Proof. exact to_events_track. Qed.

(* a sub-sequence already in order is left in order by the stable sort (what makes the theorem above go through) *)
Theorem C03_stable_sort_keeps_tracks : forall (P : row -> bool) l, sortedk r_off (filter P l) -> filter P (sort_key r_off l) = filter P l.
Proof. exact (sort_keeps_sorted_subsequence r_off). Qed.

(* ... and the list handed back is in time order: sorted by onset (in seconds), for every matrix, tempo and resolution *)
Theorem C03_events_sorted : forall sc tpq tempo rows,
  Sorting.Sorted.Sorted (fun a b => (e_off a <= e_off b)%Q) (matrix_to_events sc tpq tempo rows).
Proof. exact to_events_sorted. Qed.

(* the code as it was before the repair (a continuation's length added in quarter notes to a duration in seconds) is refuted
   at tempo 120: a half note written s0 + l lasts 1 s in the repaired model, 1.5 s in the old one *)
Example C03_events_unscaled_refuted :
  let rows := [mkRow 0 0 1 66 0 false false; mkRow 0 1 1 66 0 false true] in
  map (fun e => Qeq_bool (e_dur e) (secs 1 (120#1) 2)) (matrix_to_events true 1 (120#1) rows) = [true] /\
  map (fun e => Qeq_bool (e_dur e) (secs 1 (120#1) 2)) (matrix_to_events false 1 (120#1) rows) = [false].
Proof. exact events_unscaled_refuted. Qed.

(* non-vacuity: (I % I.M)(piano = s0 + l + r + l + su1, violin absent) + (V % I.M)(piano = l + s2, violin = s4) *)
Example C03_ex :
  let nt k d v du := mkTN (mkP k d v 0 None None) du 66 in
  let c1 := mkRC (mkC 0 (bare "") (mkT 0 MMaj 0) 0)
              [("piano__0"%string, [nt KS Abs 0 2; nt KL Abs 0 1; nt KR Abs 0 1; nt KL Abs 0 1; nt KS Up 1 2])] in
  let c2 := mkRC (mkC 4 (bare "") (mkT 0 MMaj 0) 0)
              [("piano__0"%string, [nt KL Abs 0 3; nt KS Abs 2 1]); ("violin__0"%string, [nt KS Abs 4 4])] in
  sounding_of [c1; c2] "piano__0" = Some [mkSN 0 0 3 66; mkSN 2 5 5 66; mkSN 11 10 1 66] /\
  sounding_of [c1; c2] "violin__0" = Some [mkSN 14 7 4 66] /\
  option_map (fun r => map snote_of (audible (merge_from None r))) (track_rows [c1; c2] 0 "piano__0" 0 None)
    = Some [mkSN 0 0 3 66; mkSN 2 5 5 66; mkSN 11 10 1 66].
Proof. repeat split; vm_compute; reflexivity. Qed.

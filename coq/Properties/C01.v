(* C01 - a note's pitch in a chord is the one tonal theory (and the docs) define.
   Only statements here; proofs are in Proofs/PitchProofs.v. *)
From ML Require Import Model.Types gen.Tables Model.Pitch Spec.PitchSpec Proofs.PitchProofs.
Open Scope Z_scope.

(* the generated SCALES table = rotations of the major scale, harmonic and melodic minor *)
Theorem C01_mode_tables : forall md, SCALES md = spec_mode md.
Proof. exact mode_tables. Qed.

(* Chord.scale_pitches: the tonality scale started on the chord degree, closed form in Z *)
Theorem C01_chord_scale : forall c, elem_ok c ->
  chord_scale c = Some (map (chord_deg c) idx7).
Proof. exact chord_scale_spec. Qed.

(* scale note (any value, any octave): degree v + 7o of the chord's (or the note's own mode's) scale *)
Theorem C01_scale_note : forall c n, elem_ok c -> pkind n = KS -> pacc n = None ->
  to_pitch_abs c n = Some (Some (chord_deg_in (note_mode c n) c (pval n + 7 * poct n))).
Proof. intros c n H K A. unfold to_pitch_abs. rewrite K, (pitch_basic_scale c n H K A). reflexivity. Qed.

(* chromatic note: semitones from the chord root *)
Theorem C01_chromatic_note : forall c n, elem_ok c -> pkind n = KH ->
  to_pitch_abs c n = Some (Some (chord_deg_in (note_mode c n) c 0 + pval n + 12 * poct n)).
Proof. intros c n H K. unfold to_pitch_abs. rewrite K, (pitch_basic_chromatic c n H K). reflexivity. Qed.

(* absolute note: independent of the chord *)
Theorem C01_absolute_note : forall c n, elem_ok c -> pkind n = KA ->
  to_pitch_abs c n = Some (Some (pval n + 12 * poct n)).
Proof. intros c n H K. unfold to_pitch_abs. rewrite K, (pitch_basic_absolute c n H (or_introl K)). reflexivity. Qed.

(* accidental: golden cell above the chord root; values outside 0..6 are rejected (KeyError) *)
Theorem C01_accident_note : forall c n a, elem_ok c -> pkind n = KS -> pacc n = Some a ->
  to_pitch_abs c n =
  option_map (fun t => Some (chord_deg_in (note_mode c n) c 0 + t + 12 * poct n)) (ACC_GOLDEN (pval n) a).
Proof.
  intros c n a H K A. unfold to_pitch_abs. rewrite K, (pitch_basic_accident c n a H K A).
  destruct (ACC_GOLDEN (pval n) a); reflexivity.
Qed.

Theorem C01_accident_table : forall v a, ACCIDENTS_TO_NOTE v a = ACC_GOLDEN v a.
Proof. exact accident_table. Qed.

(* the 11 bare figures: stacked thirds, inversions rotate them with the wrapped tones an octave up *)
Theorem C01_arpeggio : forall c f, elem_ok c -> In f all_figures -> cext c = bare f ->
  chord_pitches c = option_map (map (chord_deg c)) (root_degs f) /\
  chord_extension_pitches c = option_map (map (chord_deg c)) (bass_degs f).
Proof. exact arpeggio_bare. Qed.

(* chord-tone / bass-tone notes walk the arpeggio: tone v mod n, octave v / n + o *)
Theorem C01_chord_note : forall c n cp, pkind n = KC -> chord_pitches c = Some cp -> cp <> [] ->
  to_pitch_abs c n = Some (Some (arp_pitch cp (pval n) (poct n))).
Proof.
  intros c n cp K E H. unfold to_pitch_abs. rewrite K, E. cbn [obind].
  rewrite (chord_note_walk n cp H). reflexivity.
Qed.

Theorem C01_bass_note : forall c n cp, pkind n = KB -> chord_extension_pitches c = Some cp -> cp <> [] ->
  to_pitch_abs c n = Some (Some (arp_pitch cp (pval n) (poct n))).
Proof.
  intros c n cp K E H. unfold to_pitch_abs. rewrite K, E. cbn [obind].
  rewrite (chord_note_walk n cp H). reflexivity.
Qed.

(* one octave is exactly 12: note octave (all pitched kinds, any chord with any modifiers) *)
Theorem C01_note_octave : forall c n k p, to_pitch_abs c n = Some (Some p) ->
  to_pitch_abs c (with_oct n k) = Some (Some (p + 12 * k)).
Proof. exact to_pitch_note_octave. Qed.

(* tonality degree a, tonality octave b, chord octave d move chord-relative pitches by a+12b+12d *)
Theorem C01_degree_octave_equivariant : forall c a b d n p,
  (pkind n = KS \/ pkind n = KH \/ pkind n = KC \/ pkind n = KB) ->
  to_pitch_abs c n = Some (Some p) ->
  to_pitch_abs (shift_chord c a b d) n = Some (Some (p + (a + 12 * b + 12 * d))).
Proof. exact to_pitch_equivariant. Qed.

Theorem C01_absolute_ignores_chord : forall c a b d n, elem_ok c -> pkind n = KA ->
  to_pitch_abs (shift_chord c a b d) n = to_pitch_abs c n.
Proof. exact to_pitch_absolute_invariant. Qed.

(* the library's named absolute notes (C1 .. B8 with their sharp / flat spellings; table regenerated from library.py): each sounds the
   pitch its name says, middle C = C5 = 0, one octave number = 12 *)
Theorem C01_named_absolute_notes :
  forallb (fun e => let '(_, pc, number, val, oct) := e in (val + 12 * oct =? pc + 12 * (number - 5))) LIB_ABSOLUTE_NOTES = true /\
  (96 <= length LIB_ABSOLUTE_NOTES)%nat.
Proof. split; [vm_compute; reflexivity|vm_compute; repeat constructor]. Qed.


(* pitch 0 is middle C: s0 on I of C major *)
Theorem C01_middle_C :
  to_pitch_abs (mkC 0 (bare "") (mkT 0 MMaj 0) 0) (plain KS 0 0) = Some (Some 0).
Proof. vm_compute. reflexivity. Qed.

(* non-vacuity: concrete non-trivial inputs meeting the hypotheses *)
Example C01_ex_chord : elem_ok (mkC 4 (mkE "65" ["sus4"]%string ["add9"]%string []) (mkT 9 MMel (-1)) 2).
Proof. unfold elem_ok; cbn; split; discriminate. Qed.
Example C01_ex_equivariant :
  to_pitch_abs (mkC 4 (mkE "65" [] ["add9"]%string []) (mkT 9 MMel (-1)) 2) (plain KB 5 (-1)) = Some (Some 32).
Proof. vm_compute. reflexivity. Qed.

From ML Require Import Model.Types gen.Tables Model.Pitch.
Theorem C01_stub : True. Proof. exact I. Qed.

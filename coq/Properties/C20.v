(* C20 - equality is an equivalence and agrees with hashing.  Statements only; proofs in Proofs/EqProofs.v.
   eqv e := e is reflexive, symmetric and transitive (as a boolean relation). *)
From ML Require Import Model.Types gen.Tables Model.Pitch Model.Ton Model.Code Proofs.TonProofs Proofs.EqProofs.
From Coq Require Import QArith.
Open Scope Z_scope.

Theorem C20_equiv_note : eqv note_eqb.
Proof. exact note_eqb_eqv. Qed.

(* equal notes hash equal (the repaired __hash__ hashes exactly this tuple) *)
Theorem C20_hash_note : forall a b, note_eqb a b = true -> note_hash_key a = note_hash_key b.
Proof. exact note_eq_hash. Qed.

Theorem C20_equiv_tonality : eqv ton_eqb.
Proof. exact ton_eqb_eqv. Qed.

(* Tonality.__eq__ holds exactly when the normal forms agree: the repaired __hash__ hashes the normal form *)
Theorem C20_hash_tonality : forall a b, ton_eqb a b = true <-> ton_norm a = ton_norm b.
Proof. exact ton_eqb_spec. Qed.

(* enharmonically equivalent spellings: k octaves written in the degree or in the octave *)
Theorem C20_enharmonic : forall d md o k, ton_eqb (mkT (d + 12 * k) md o) (mkT d md (o + k)) = true.
Proof. exact ton_enharmonic. Qed.

(* melodies: equality of the printed code, which is also what is hashed *)
Theorem C20_equiv_melody : eqv melody_eqb.
Proof. exact melody_eqb_eqv. Qed.

(* chords (part dictionaries have unique keys): equivalence, whatever the part order *)
Theorem C20_equiv_chord :
  (forall a, wf_chord a -> fchord_eqb a a = true) /\
  (forall a b, wf_chord a -> wf_chord b -> fchord_eqb a b = true -> fchord_eqb b a = true) /\
  (forall a b c, fchord_eqb a b = true -> fchord_eqb b c = true -> fchord_eqb a c = true).
Proof. repeat split; [exact fchord_eqb_refl|exact fchord_eqb_sym|exact fchord_eqb_trans]. Qed.

(* equal chords agree on every component of the hashed tuple *)
Theorem C20_hash_chord : forall a b, fchord_eqb a b = true ->
  celem (fc a) = celem (fc b) /\ ext_str_eqb (cext (fc a)) (cext (fc b)) = true /\
  ton_norm (cton (fc a)) = ton_norm (cton (fc b)) /\ coct (fc a) = coct (fc b) /\
  dict_eqb (fparts a) (fparts b) = true.
Proof. exact fchord_eq_hash. Qed.

Theorem C20_equiv_score :
  (forall a, Forall wf_chord a -> score_eqb a a = true) /\
  (forall a b, Forall wf_chord a -> Forall wf_chord b -> score_eqb a b = true -> score_eqb b a = true) /\
  (forall a b c, score_eqb a b = true -> score_eqb b c = true -> score_eqb a c = true).
Proof. repeat split; [exact score_eqb_refl|exact score_eqb_sym|exact score_eqb_trans]. Qed.

(* non-vacuity: s0 == s0.f (amplitude is not compared), same hash key; part order does not matter *)
Example C20_ex_note :
  let a := mkF KS Abs 0 0 1 None None 66 [] in let b := mkF KS Abs 0 0 (2 # 2) None None 96 ["x"%string] in
  note_eqb a b = true /\ note_hash_key a = note_hash_key b.
Proof. split; vm_compute; reflexivity. Qed.
Example C20_ex_chord :
  let m := [mkF KS Abs 0 0 1 None None 66 []] in let c := mkC 0 (bare "") (mkT 0 MMaj 0) 0 in
  fchord_eqb (mkFC c [("a"%string, m); ("b"%string, m)]) (mkFC c [("b"%string, m); ("a"%string, m)]) = true.
Proof. vm_compute. reflexivity. Qed.

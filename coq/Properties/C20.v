(* C20 - equality is an equivalence and agrees with hashing.  Statements only; proofs in Proofs/EqProofs.v.
   eqv e := e is reflexive, symmetric and transitive (as a boolean relation). *)
From ML Require Import Model.Types gen.Tables Model.Pitch Model.Ton Model.Code Model.Copy Proofs.TonProofs Proofs.EqProofs Proofs.CopyProofs Model.Tags Proofs.TagsProofs Proofs.TagOrderEq.
From Coq Require Import QArith.
Open Scope Z_scope.

Theorem C20_equiv_note : eqv note_eqb.
Proof. exact note_eqb_eqv. Qed.

(* equal notes hash equal (the repaired __hash__ hashes exactly this tuple) *)
Theorem C20_hash_note : forall a b, note_eqb a b = true -> note_hash_key a = note_hash_key b.
Proof. exact note_eq_hash. Qed.

Theorem C20_equiv_tonality : eqv ton_eqb.
Proof. exact ton_eqb_eqv. Qed.

(* Tonality.__eq__ holds exactly when the normal forms agree: the repaired __hash__ hashes the normal form *)
Theorem C20_hash_tonality : forall a b, ton_eqb a b = true <-> ton_norm a = ton_norm b.
Proof. exact ton_eqb_spec. Qed.

(* enharmonically equivalent spellings: k octaves written in the degree or in the octave *)
Theorem C20_enharmonic : forall d md o k, ton_eqb (mkT (d + 12 * k) md o) (mkT d md (o + k)) = true.
Proof. exact ton_enharmonic. Qed.

(* melodies: equality of the printed code, which is also what is hashed *)
Theorem C20_equiv_melody : eqv melody_eqb.
Proof. exact melody_eqb_eqv. Qed.

(* ... and that code lists a note's tags in sorted order, so it is a function of the tag SET: however the set was built (any
   insertion order, members removed in between), the printed list is the same, has exactly the set's members, and two melodies
   whose notes differ only in the order their tags are listed are equal (and hash alike: the hash is the hash of the code) *)
Theorem C20_tag_text_canonical : forall l l', Permutation.Permutation l l' -> sort_tags l = sort_tags l'.
Proof. exact sort_tags_canonical. Qed.

Theorem C20_tag_text_members : forall l x, In x (sort_tags l) <-> In x l.
Proof. exact sort_tags_members. Qed.

Theorem C20_tag_order_irrelevant : forall m m', same_up_to_tag_order m m' ->
  melody_eqb m m' = true /\ map note_code m' = map note_code m.
Proof. intros m m' H. split; [exact (melody_eqb_tag_order m m' H)|exact (codes_retag m m' H)]. Qed.

(* chords (part dictionaries have unique keys): equivalence, whatever the part order *)
Theorem C20_equiv_chord :
  (forall a, wf_chord a -> fchord_eqb a a = true) /\
  (forall a b, wf_chord a -> wf_chord b -> fchord_eqb a b = true -> fchord_eqb b a = true) /\
  (forall a b c, fchord_eqb a b = true -> fchord_eqb b c = true -> fchord_eqb a c = true).
Proof. repeat split; [exact fchord_eqb_refl|exact fchord_eqb_sym|exact fchord_eqb_trans]. Qed.

(* equal chords agree on every component of the hashed tuple *)
Theorem C20_hash_chord : forall a b, fchord_eqb a b = true ->
  celem (fc a) = celem (fc b) /\ ext_str_eqb (cext (fc a)) (cext (fc b)) = true /\
  ton_norm (cton (fc a)) = ton_norm (cton (fc b)) /\ coct (fc a) = coct (fc b) /\
  dict_eqb (fparts a) (fparts b) = true.
Proof. exact fchord_eq_hash. Qed.

Theorem C20_equiv_score :
  (forall a, Forall wf_chord a -> score_eqb a a = true) /\
  (forall a b, Forall wf_chord a -> Forall wf_chord b -> score_eqb a b = true -> score_eqb b a = true) /\
  (forall a b c, score_eqb a b = true -> score_eqb b c = true -> score_eqb a c = true).
Proof. repeat split; [exact score_eqb_refl|exact score_eqb_sym|exact score_eqb_trans]. Qed.

(* an object and its copy: whatever the rounding the Note constructor applies to the duration, the copy of a note has the
   original's fields, so notes, melodies, chords and scores are equal to their copies and notes hash like them *)
Theorem C20_copy_note : forall round n, wf_note n = true ->
  note_copy round n = n /\ note_eqb (note_copy round n) n = true /\ note_hash_key (note_copy round n) = note_hash_key n.
Proof. intros round n W. split; [exact (note_copy_id round n W)|split; [exact (note_copy_equal round n W)|exact (note_copy_hash round n W)]]. Qed.

Theorem C20_copy_melody : forall round m, forallb wf_note m = true -> melody_eqb (melody_copy round m) m = true.
Proof. exact melody_copy_equal. Qed.

Theorem C20_copy_chord : forall round c, wf_chord c -> wf_parts c = true -> fchord_eqb (fchord_copy round c) c = true.
Proof. exact fchord_copy_equal. Qed.

Theorem C20_copy_score : forall round s, Forall wf_chord s -> forallb wf_parts s = true -> score_eqb (score_copy round s) s = true.
Proof. exact score_copy_equal. Qed.

(* the copy methods before the repairs 190c1fb / c3d0291 / 3de5c96 gave an equal note exactly when the constructor's rounding
   left the duration alone and, for a rest or continuation, the octave was 0 and there was no mode *)
Theorem C20_copy_before_repairs : forall round n, wf_note n = true ->
  (note_eqb (note_copy_old round n) n = true <->
   (round (fdur n) == fdur n)%Q /\ (is_rest_kind (fk n) = true -> fo n = 0 /\ fmode n = None)).
Proof. exact note_copy_old_equal_iff. Qed.

Theorem C20_copy_before_repairs_refuted :
  (forall round, note_eqb (note_copy_old round (mkF KR Abs 0 1 1 None None 66 [])) (mkF KR Abs 0 1 1 None None 66 []) = false) /\
  note_eqb (note_copy_old (fun _ => 0%Q) (mkF KS Abs 0 0 (1 # 21952) None None 66 [])) (mkF KS Abs 0 0 (1 # 21952) None None 66 []) = false.
Proof. exact note_copy_old_refuted. Qed.

(* non-vacuity: s0 == s0.f (amplitude is not compared), same hash key; part order does not matter *)
Example C20_ex_note :
  let a := mkF KS Abs 0 0 1 None None 66 [] in let b := mkF KS Abs 0 0 (2 # 2) None None 96 ["x"%string] in
  note_eqb a b = true /\ note_hash_key a = note_hash_key b.
Proof. split; vm_compute; reflexivity. Qed.
Example C20_ex_chord :
  let m := [mkF KS Abs 0 0 1 None None 66 []] in let c := mkC 0 (bare "") (mkT 0 MMaj 0) 0 in
  fchord_eqb (mkFC c [("a"%string, m); ("b"%string, m)]) (mkFC c [("b"%string, m); ("a"%string, m)]) = true.
Proof. vm_compute. reflexivity. Qed.
